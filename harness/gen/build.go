package gen

import (
	"fmt"

	"verif/fw"
)

// Opts bounds and shapes the random system description.
type Opts struct {
	MaxApps      int
	MaxTypes     int
	MaxFields    int
	MaxEps       int
	MaxStmts     int // per block
	MaxDepth     int // statement nesting
	Rest         bool
	Events       bool
	Mixins       bool
	Namespace    bool
	Escapes      bool // %xx-escaped names
	Hostile      bool // hostile strings in attribute values (quotes, backslashes, key-like text)
	HostileNames bool // hostile characters in application, type and field names (written %xx-escaped)
	Annos        bool
	WideStmts    bool // >= 3 siblings at each nesting level
	Extras       bool // list fields, in-place tuples, collectors
}

func DefaultOpts(r *fw.Rand, thorough bool) Opts {
	o := Opts{MaxApps: 4, MaxTypes: 5, MaxFields: 6, MaxEps: 4, MaxStmts: 4, MaxDepth: 3,
		Rest: true, Events: true, Mixins: true, Namespace: true, Escapes: true, Annos: true, Extras: true}
	if thorough {
		o.MaxApps, o.MaxTypes, o.MaxFields, o.MaxEps, o.MaxStmts, o.MaxDepth = 6, 8, 10, 6, 6, 6
	}
	return o
}

var appWords = []string{"Acct", "Bank", "Cust", "Dept", "Gate", "Hub", "Jrnl", "Kiosk", "Ledger", "Mkt", "Node",
	"Ord", "Pay", "Quote", "Risk", "Svc", "Txn", "Vault", "Xfer", "Yield", "Zone"}
var typeWords = []string{"Addr", "Batch", "Card", "Deal", "Entry", "Fund", "Grant", "Hold", "Item", "Job", "Kind",
	"Loan", "Memo", "Note", "Offer", "Plan", "Rule", "Slot", "Term", "User", "Visit"}
var fieldWords = []string{"acct", "bal", "ccy", "descr", "email", "fee", "grp", "hash", "idx", "key", "lim", "memo",
	"num", "own", "pct", "qty", "rate", "seqno", "tax", "usr", "ver", "wgt", "zip"}
var textWords = []string{"check", "store", "validate", "lookup", "notify", "queue", "publish", "compute", "map",
	"merge", "balance", "the", "customer", "record", "ledger", "quickly", "twice", "now", "again", "result"}
var attrNames = []string{"owner", "team", "version", "tier", "zone", "source", "color", "contact", "status", "level"}
var tagNames = []string{"core", "beta", "ext", "db", "gold", "legacy", "audit", "fast", "pii", "ro"}
var prims = []string{"int", "int32", "int64", "float", "float32", "float64", "string", "bool", "date", "datetime", "decimal", "bytes", "any"}
var verbs = []string{"GET", "POST", "PUT", "DELETE", "PATCH"}

type builder struct {
	budget int
	r      *fw.Rand
	o      Opts
	nextID int
	used   map[string]bool
}

func (b *builder) id() int { b.nextID++; return b.nextID }

func (b *builder) uniq(pool []string, scope string) string {
	for tries := 0; ; tries++ {
		w := pool[b.r.Intn(len(pool))]
		if tries > 3 {
			w = fmt.Sprintf("%s%d", w, b.r.Intn(90)+2)
		}
		if b.r.Chance(1, 6) {
			w = w + "_" + fmt.Sprint(b.r.Intn(9))
		}
		if !b.used[scope+"/"+w] {
			b.used[scope+"/"+w] = true
			return w
		}
	}
}

// Build creates a random, tidy (every reference and call resolves) system description.
func Build(r *fw.Rand, o Opts) *Spec {
	b := &builder{r: r, o: o, used: map[string]bool{}}
	s := &Spec{}
	nApps := r.Range(1, o.MaxApps)
	if nApps < 2 && r.Chance(3, 4) {
		nApps = 2
	}
	// pass 1: apps with names and types (so references can resolve)
	for i := 0; i < nApps; i++ {
		a := &App{ID: b.id()}
		if o.Namespace && r.Chance(1, 4) {
			a.Parts = []string{b.uniq(appWords, "ns"), b.uniq(appWords, "app")}
			if r.Chance(1, 4) {
				a.Parts = append([]string{b.uniq(appWords, "ns")}, a.Parts...)
			}
		} else {
			a.Parts = []string{b.uniq(appWords, "app")}
		}
		if o.Escapes && r.Chance(1, 6) {
			// a name part that needs %-escaping in the source: contains a space or a dot-free symbol
			a.Parts[len(a.Parts)-1] = a.Parts[len(a.Parts)-1] + []string{" ", "+", "&"}[r.Intn(3)] + "X"
			b.used["app/"+a.Parts[len(a.Parts)-1]] = true
		}
		if o.HostileNames && r.Chance(1, 2) {
			a.Parts[len(a.Parts)-1] = b.hostileName(a.Parts[len(a.Parts)-1])
		}
		if r.Chance(1, 3) {
			a.Long = b.phrase(2, 4)
			if o.Hostile && r.Chance(1, 2) {
				a.Long = hostileStrings[r.Intn(len(hostileStrings))]
			}
		}
		a.Attrs = b.attrs("appattr", 0, 3, true)
		s.Apps = append(s.Apps, a)
	}
	for _, a := range s.Apps {
		nT := r.Range(0, o.MaxTypes)
		for i := 0; i < nT; i++ {
			t := &Type{ID: b.id(), Name: b.uniq(typeWords, "type/"+a.Name())}
			if o.HostileNames && r.Chance(1, 4) {
				t.Name = b.hostileName(t.Name)
			}
			switch k := r.Intn(10); {
			case k < 4:
				t.Kind = "type"
			case k < 7:
				t.Kind = "table"
			case k < 8:
				t.Kind = "enum"
			case k < 9:
				t.Kind = "alias"
			default:
				t.Kind = "union"
			}
			a.Members = append(a.Members, Member{Type: t})
		}
	}
	// pass 2: fill types
	for _, a := range s.Apps {
		for _, t := range a.Types() {
			b.fillType(s, a, t)
		}
	}
	// pass 3: endpoints (names first so calls can resolve)
	for _, a := range s.Apps {
		nE := r.Range(0, o.MaxEps)
		if len(a.Members) == 0 && nE == 0 {
			nE = 1
		}
		for i := 0; i < nE; i++ {
			if o.Rest && r.Chance(1, 3) {
				a.Members = append(a.Members, Member{Rest: b.restNode(s, a, 0, nil)})
				continue
			}
			ep := &Endpoint{ID: b.id()}
			if r.Chance(1, 4) {
				ep.Name = b.uniq(typeWords, "ep/"+a.Name()) + " " + b.uniq(appWords, "ep2/"+a.Name())
			} else {
				ep.Name = b.uniq(typeWords, "ep/"+a.Name())
			}
			if o.Events && r.Chance(1, 6) {
				ep.Event = true
				ep.Name = "Ev" + b.uniq(typeWords, "ep/"+a.Name())
			}
			a.Members = append(a.Members, Member{Ep: ep})
		}
	}
	// REST endpoint names are METHOD + space + full path
	for _, a := range s.Apps {
		for _, m := range a.Members {
			if m.Rest != nil {
				NameRest(m.Rest, "")
			}
		}
	}
	// subscriptions: at most one subscriber per event; a subscribed event has no statements
	// of its own (so the publisher's statement list does not depend on declaration order)
	subscribed := map[*Endpoint]bool{}
	if o.Events {
		for _, pub := range s.Apps {
			for _, m := range pub.Members {
				if m.Ep == nil || !m.Ep.Event || !r.Chance(1, 2) {
					continue
				}
				sub := s.Apps[r.Intn(len(s.Apps))]
				if sub == pub {
					continue
				}
				subscribed[m.Ep] = true
				sub.Members = append(sub.Members, Member{Ep: &Endpoint{ID: b.id(), Name: m.Ep.Name, SubOf: pub.Parts}})
			}
		}
	}
	for _, a := range s.Apps {
		for _, ep := range a.AllEndpoints() {
			b.fillEndpoint(s, a, ep)
			if subscribed[ep] {
				ep.Stmts = nil
			}
		}
	}
	if o.Extras {
		for _, a := range s.Apps {
			if r.Chance(1, 4) {
				if c := b.collector(a); len(c) > 0 {
					a.Members = append(a.Members, Member{Collector: c})
				}
			}
		}
	}
	// mixins: an app may mix in an earlier-built abstract app that has only types
	if o.Mixins && len(s.Apps) >= 2 {
		for i, a := range s.Apps {
			if r.Chance(1, 5) {
				j := r.Intn(len(s.Apps))
				if j != i && !b.mixesIn(s.Apps[j], a) {
					a.Members = append(a.Members, Member{Mixin: s.Apps[j].Parts})
					b.ensureTag(s.Apps[j], "abstract")
				}
			}
		}
	}
	// app-level annotations
	if o.Annos {
		for _, a := range s.Apps {
			for _, at := range b.annos("appattr/"+fmt.Sprint(a.ID), 0, 2) {
				at := at
				a.Members = append(a.Members, Member{Anno: &at})
			}
		}
	}
	// shuffle member order (annotations stay where they fall; all orders are legal)
	for _, a := range s.Apps {
		p := r.Perm(len(a.Members))
		ms := make([]Member, len(a.Members))
		for i, j := range p {
			ms[i] = a.Members[j]
		}
		a.Members = ms
	}
	return s
}

func isPK(f *Field) bool {
	for _, at := range f.Attrs {
		if at.Tag && at.Name == "pk" {
			return true
		}
	}
	return false
}

// collector builds a `.. * <- *` block: attributes for one simple endpoint of the
// application and for one call that occurs in it (at most one statement per target, names
// distinct from every other attribute name).
func (b *builder) collector(a *App) []*Stmt {
	var out []*Stmt
	mkAttrs := func() []Attr {
		as := []Attr{{Name: "c_" + attrNames[b.r.Intn(len(attrNames))], Val: AttrVal{S: b.strVal()}}}
		if b.r.Chance(1, 2) {
			as = append(as, Attr{Name: "col" + tagNames[b.r.Intn(len(tagNames))], Tag: true})
		}
		return as
	}
	var simple []*Endpoint
	for _, m := range a.Members {
		if m.Ep != nil && !m.Ep.Event && len(m.Ep.SubOf) == 0 {
			simple = append(simple, m.Ep)
		}
	}
	if len(simple) > 0 && b.r.Chance(2, 3) {
		out = append(out, &Stmt{ID: b.id(), Kind: "action", Text: simple[b.r.Intn(len(simple))].Name, Attrs: mkAttrs()})
	}
	var calls []*Stmt
	var walk func(ss []*Stmt)
	walk = func(ss []*Stmt) {
		for _, s := range ss {
			if s.Kind == "call" {
				calls = append(calls, s)
			}
			walk(s.Body)
			for _, c := range s.Cases {
				walk(c.Body)
			}
		}
	}
	for _, ep := range a.AllEndpoints() {
		walk(ep.Stmts)
	}
	if len(calls) > 0 && b.r.Chance(2, 3) {
		c := calls[b.r.Intn(len(calls))]
		t := c.Target
		if c.Self {
			t = a.Parts
		}
		out = append(out, &Stmt{ID: b.id(), Kind: "call", Target: t, Ep: c.Ep, Attrs: mkAttrs()})
	}
	return out
}

func (b *builder) mixesIn(a, target *App) bool {
	for _, m := range a.Members {
		if m.Mixin != nil && joinParts(m.Mixin) == target.Name() {
			return true
		}
	}
	return false
}

func (b *builder) ensureTag(a *App, tag string) {
	for _, at := range a.Attrs {
		if at.Tag && at.Name == tag {
			return
		}
	}
	a.Attrs = append(a.Attrs, Attr{Name: tag, Tag: true})
}

func (b *builder) phrase(min, max int) string {
	n := b.r.Range(min, max)
	s := ""
	for i := 0; i < n; i++ {
		if i > 0 {
			s += " "
		}
		s += textWords[b.r.Intn(len(textWords))]
	}
	return s
}

var hostileStrings = []string{
	`say "hi"`, `back\slash`, "line1\nline2", "tab\there", `k":  v`, `": `, ` lead`, `trail `, `ünï©ode ✓`,
	`{"a": [1,2]}`, `[x]`, `a,b`, `a, b, c`, `C:\var\log\`, `ends with backslash\`, `, `, `\\`, `\u00e9`, `%s %d`, `$1`, `~tag`, `#notcomment`, `100%`, `a  b`, `":  "`, `\"`, `'single'`,
}

var hostileNameBits = []string{`":  b`, `\\`, `"q`, ` sp`, `ü`, `": v`, `:c`, `[x]`, `{y}`, `,`, `#`, `'`}

// hostileName keeps the unique base and adds characters that need care in every encoder.
func (b *builder) hostileName(base string) string {
	return base + hostileNameBits[b.r.Intn(len(hostileNameBits))]
}

func (b *builder) strVal() string {
	if b.o.Hostile && b.r.Chance(1, 2) {
		return hostileStrings[b.r.Intn(len(hostileStrings))]
	}
	switch b.r.Intn(6) {
	case 0:
		return b.phrase(1, 3)
	case 1:
		return fmt.Sprint(b.r.Intn(1000))
	case 2:
		return `q"` + textWords[b.r.Intn(len(textWords))] + `"`
	case 3:
		return "v" + fmt.Sprint(b.r.Intn(10)) + "." + fmt.Sprint(b.r.Intn(10))
	default:
		return textWords[b.r.Intn(len(textWords))]
	}
}

func (b *builder) attrVal(depth int) AttrVal {
	if depth < 2 && b.r.Chance(1, 4) {
		n := b.r.Range(0, 3)
		if depth > 0 && n == 0 {
			n = 1
		}
		v := AttrVal{IsArr: true}
		for i := 0; i < n; i++ {
			v.Arr = append(v.Arr, b.attrVal(depth+1))
		}
		return v
	}
	return AttrVal{S: b.strVal()}
}

// attrs builds a `[...]` list: distinct names, tags and name=value pairs.
func (b *builder) attrs(scope string, min, max int, tags bool) []Attr {
	n := b.r.Range(min, max)
	var out []Attr
	seen := map[string]bool{}
	for i := 0; i < n; i++ {
		if tags && b.r.Chance(1, 2) {
			t := tagNames[b.r.Intn(len(tagNames))]
			if seen["~"+t] {
				continue
			}
			seen["~"+t] = true
			out = append(out, Attr{Name: t, Tag: true})
			continue
		}
		k := attrNames[b.r.Intn(len(attrNames))]
		if seen[k] {
			continue
		}
		seen[k] = true
		v := b.attrVal(0)
		if v.IsArr && len(v.Arr) == 0 {
			v = AttrVal{S: b.strVal()}
		}
		if !v.IsArr && v.S == "" {
			v.S = "x"
		}
		out = append(out, Attr{Name: k, Val: v})
	}
	return out
}

// annos builds `@name = value` annotations with names disjoint from attrNames (so the
// precedence rule between the two forms never comes into play).
func (b *builder) annos(scope string, min, max int) []Attr {
	if !b.o.Annos {
		return nil
	}
	n := b.r.Range(min, max)
	var out []Attr
	for i := 0; i < n; i++ {
		k := "a_" + attrNames[b.r.Intn(len(attrNames))]
		if b.r.Chance(1, 5) {
			k = "doc." + attrNames[b.r.Intn(len(attrNames))]
		}
		if b.used[scope+"@"+k] {
			continue
		}
		b.used[scope+"@"+k] = true
		at := Attr{Name: k, Val: b.attrVal(0)}
		if at.Val.IsArr && len(at.Val.Arr) == 0 {
			at.Val = AttrVal{S: "e"}
		}
		if !at.Val.IsArr && at.Val.S == "" {
			at.Val.S = "x"
		}
		if !at.Val.IsArr && b.r.Chance(1, 5) {
			at.Multi = true
			at.Val.S = b.phrase(1, 3) + "\n" + b.phrase(1, 3) + "\n"
			if b.r.Chance(1, 2) {
				at.Val.S = b.phrase(2, 4) + "\n"
			}
		}
		out = append(out, at)
	}
	return out
}

func (b *builder) primExpr() TypeExpr {
	p := prims[b.r.Intn(len(prims))]
	t := TypeExpr{Prim: p}
	if b.r.Chance(1, 3) {
		switch p {
		case "string", "int", "bytes", "date", "datetime", "int32", "int64":
			switch b.r.Intn(3) {
			case 0:
				t.Size = &SizeSpec{Kind: "len", A: int64(b.r.Range(1, 300))}
			case 1:
				lo := int64(b.r.Range(0, 9))
				t.Size = &SizeSpec{Kind: "range", A: lo, B: lo + int64(b.r.Range(1, 90))}
			default:
				t.Size = &SizeSpec{Kind: "open", A: int64(b.r.Range(0, 9))}
			}
		case "decimal":
			if b.r.Chance(1, 2) {
				t.Size = &SizeSpec{Kind: "dec", A: int64(b.r.Range(3, 18)), B: int64(b.r.Range(0, 3))}
			} else {
				t.Size = &SizeSpec{Kind: "len", A: int64(b.r.Range(1, 20))}
			}
		}
	}
	return t
}

// refExpr picks a reference to an existing tuple/table/enum/alias type, local or cross-app.
func (b *builder) refExpr(s *Spec, a *App, self *Type) (TypeExpr, bool) {
	type cand struct {
		app *App
		t   *Type
	}
	var cs []cand
	for _, x := range s.Apps {
		for _, t := range x.Types() {
			cs = append(cs, cand{x, t})
		}
	}
	if len(cs) == 0 {
		return TypeExpr{}, false
	}
	c := cs[b.r.Intn(len(cs))]
	e := TypeExpr{RefPath: []string{c.t.Name}}
	if c.app != a {
		e.RefApp = c.app.Parts
	}
	return e, true
}

func (b *builder) typeExpr(s *Spec, a *App, self *Type, allowColl bool) TypeExpr {
	var e TypeExpr
	if b.r.Chance(2, 5) {
		if x, ok := b.refExpr(s, a, self); ok {
			e = x
		} else {
			e = b.primExpr()
		}
	} else {
		e = b.primExpr()
	}
	if allowColl && b.r.Chance(1, 4) {
		e.Coll = []string{"set", "sequence"}[b.r.Intn(2)]
	}
	if b.r.Chance(1, 4) {
		e.Opt = true
	}
	return e
}

func (b *builder) fillType(s *Spec, a *App, t *Type) {
	scope := fmt.Sprintf("t%d", t.ID)
	switch t.Kind {
	case "type", "table":
		t.Attrs = b.attrs(scope, 0, 2, true)
		t.Annos = b.annos(scope, 0, 2)
		n := b.r.Range(1, b.o.MaxFields)
		pk := false
		for i := 0; i < n; i++ {
			f := &Field{ID: b.id(), Name: b.uniq(fieldWords, scope)}
			if b.o.HostileNames && b.r.Chance(1, 5) {
				f.Name = b.hostileName(f.Name)
			}
			f.T = b.typeExpr(s, a, t, true)
			f.Attrs = b.attrs(scope+f.Name, 0, 2, true)
			if t.Kind == "table" && !pk && f.T.Prim != "" && f.T.Coll == "" && b.r.Chance(1, 2) {
				f.Attrs = append(f.Attrs, Attr{Name: "pk", Tag: true})
				if f.T.Prim == "int" && b.r.Chance(1, 2) {
					f.Attrs = append(f.Attrs, Attr{Name: "autoinc", Tag: true})
				}
				pk = b.r.Chance(2, 3)
			}
			if b.r.Chance(1, 6) {
				f.Annos = b.annos(scope+f.Name, 1, 2)
			}
			if len(f.Annos) == 0 && f.T.Coll == "" && b.r.Chance(1, 8) {
				f.Doc = b.phrase(1, 3)
			}
			if b.o.Extras && len(f.Annos) == 0 && f.Doc == "" && !isPK(f) && b.r.Chance(1, 8) {
				lo := int64(b.r.Range(0, 3))
				f.List = &SizeSpec{Kind: "range", A: lo, B: lo + int64(b.r.Range(1, 9))}
				if b.r.Chance(1, 3) {
					f.List = &SizeSpec{Kind: "open", A: lo}
				}
			}
			if b.o.Extras && t.Kind == "type" && !isPK(f) && b.r.Chance(1, 10) {
				f.Attrs, f.Annos, f.Doc, f.List = nil, nil, "", nil
				f.T = TypeExpr{}
				for k := b.r.Range(1, 3); k > 0; k-- {
					g := &Field{ID: b.id(), Name: b.uniq(fieldWords, scope+f.Name)}
					g.T = b.typeExpr(s, a, t, false)
					f.Inplace = append(f.Inplace, g)
				}
			}
			t.Fields = append(t.Fields, f)
		}
		// table foreign keys: T.field of another table in the same app
		if t.Kind == "table" && b.r.Chance(1, 2) {
			for _, o := range a.Types() {
				if o != t && o.Kind == "table" && len(o.Fields) > 0 && o.Fields[0].T.Prim != "" {
					f := &Field{ID: b.id(), Name: b.uniq(fieldWords, scope)}
					f.T = TypeExpr{RefApp: []string{o.Name}, RefPath: []string{o.Fields[0].Name}}
					t.Fields = append(t.Fields, f)
					break
				}
			}
		}
	case "enum":
		t.Attrs = b.attrs(scope, 0, 1, true)
		n := b.r.Range(1, 5)
		vals := b.r.Perm(20)
		for i := 0; i < n; i++ {
			t.Items = append(t.Items, EnumItem{Name: fmt.Sprintf("%s_%d", []string{"RED", "ON", "Low", "kA", "X"}[b.r.Intn(5)], i), Val: int64(vals[i])})
		}
	case "alias":
		t.Attrs = b.attrs(scope, 0, 1, true)
		e := b.typeExpr(s, a, t, true)
		e.Opt = false
		if e.Coll == "" {
			e.Size = nil
		}
		t.Alias = &e
	case "union":
		t.Attrs = b.attrs(scope, 0, 1, true)
		n := b.r.Range(1, 4)
		seen := map[string]bool{}
		for i := 0; i < n; i++ {
			e := b.typeExpr(s, a, t, false)
			e.Opt = false
			e.Size = nil
			key := e.Prim + joinParts(e.RefApp) + "." + fmt.Sprint(e.RefPath)
			if seen[key] {
				continue
			}
			seen[key] = true
			t.Members = append(t.Members, e)
		}
	}
}

// plainTypes lists the types whose names need no escaping (path variables and {T} query
// parameters take the name as written).
func plainTypes(a *App) []*Type {
	var out []*Type
	for _, t := range a.Types() {
		if RenderName(t.Name) == t.Name {
			out = append(out, t)
		}
	}
	return out
}

func (b *builder) restNode(s *Spec, a *App, depth int, taken map[string]bool) *RestNode {
	n := &RestNode{ID: b.id()}
	if taken == nil {
		taken = map[string]bool{}
	}
	nseg := b.r.Range(1, 2)
	for i := 0; i < nseg; i++ {
		if b.r.Chance(1, 3) {
			v := b.uniq(fieldWords, fmt.Sprintf("pv/%s", a.Name()))
			seg := PathSeg{Var: v}
			if b.r.Chance(3, 4) {
				seg.Prim = []string{"int", "string", "int64", "bool"}[b.r.Intn(4)]
			} else if ts := plainTypes(a); len(ts) > 0 {
				seg.Ref = ts[b.r.Intn(len(ts))].Name
			} else {
				seg.Prim = "string"
			}
			n.Segs = append(n.Segs, seg)
		} else {
			n.Segs = append(n.Segs, PathSeg{Static: b.uniq(fieldWords, fmt.Sprintf("ps/%s/%d", a.Name(), depth))})
		}
	}
	if b.r.Chance(1, 4) {
		// names are distinct along a path chain and from method-level names
		n.Attrs = b.attrs("rest", 1, 2, true)
		for i := range n.Attrs {
			if !n.Attrs[i].Tag {
				n.Attrs[i].Name = fmt.Sprintf("%s_d%d", n.Attrs[i].Name, depth)
			}
		}
	}
	nm := b.r.Range(1, 3)
	if depth < 2 && b.r.Chance(1, 3) {
		nm = b.r.Range(0, 2)
	}
	vs := b.r.Perm(len(verbs))
	for i := 0; i < nm; i++ {
		m := &Endpoint{ID: b.id(), Method: verbs[vs[i]]}
		n.Items = append(n.Items, RestItem{M: m})
	}
	if depth < 2 && (nm == 0 || b.r.Chance(1, 3)) {
		k := b.r.Range(1, 2)
		for i := 0; i < k; i++ {
			n.Items = append(n.Items, RestItem{C: b.restNode(s, a, depth+1, taken)})
		}
	}
	p := b.r.Perm(len(n.Items))
	items := make([]RestItem, len(n.Items))
	for i, j := range p {
		items[i] = n.Items[j]
	}
	n.Items = items
	return n
}

// NameRest assigns every REST method its endpoint name (METHOD + " " + full path).
func NameRest(n *RestNode, prefix string) {
	path := RestPath(prefix, n.Segs)
	for _, it := range n.Items {
		if it.C != nil {
			NameRest(it.C, path)
		} else {
			it.M.Name = it.M.Method + " " + path
		}
	}
}

func (b *builder) fillEndpoint(s *Spec, a *App, ep *Endpoint) {
	scope := fmt.Sprintf("e%d", ep.ID)
	if len(ep.SubOf) > 0 {
		ep.Attrs = b.attrs(scope, 0, 1, true)
		if b.r.Chance(4, 5) {
			ep.Stmts = b.stmts(s, a, 0)
		}
		return
	}
	if ep.Method == "" && !ep.Event && b.r.Chance(1, 6) {
		ep.Long = b.phrase(2, 3)
	}
	if b.r.Chance(1, 3) {
		n := b.r.Range(1, 3)
		for i := 0; i < n; i++ {
			p := Param{Name: b.uniq(fieldWords, scope+"p")}
			p.T = b.typeExpr(s, a, nil, false)
			p.T.Opt = false
			if b.r.Chance(1, 4) {
				p.T.Coll = "sequence"
			}
			if len(p.T.RefPath) > 0 && b.r.Chance(1, 5) {
				p.T.Coll = "set"
			}
			ep.Params = append(ep.Params, p)
		}
	}
	ep.Attrs = b.attrs(scope, 0, 2, true)
	if ep.Method != "" && b.r.Chance(1, 3) {
		n := b.r.Range(1, 3)
		for i := 0; i < n; i++ {
			q := QueryParam{Name: b.uniq(fieldWords, scope+"q"), Opt: b.r.Chance(1, 3)}
			if ts := plainTypes(a); len(ts) > 0 && b.r.Chance(1, 4) {
				q.Ref = ts[b.r.Intn(len(ts))].Name
			} else {
				q.Prim = []string{"int", "string", "bool", "int32", "date"}[b.r.Intn(5)]
			}
			ep.Query = append(ep.Query, q)
		}
	}
	if ep.Method != "" || b.r.Chance(5, 6) {
		ep.Stmts = b.stmts(s, a, 0)
	}
}

func (b *builder) stmts(s *Spec, a *App, depth int) []*Stmt {
	if depth == 0 {
		b.budget = b.r.Range(2, 4*b.o.MaxStmts)
	}
	n := b.r.Range(1, b.o.MaxStmts)
	if b.o.WideStmts && n < 3 {
		n = 3
	}
	if b.budget < n && !b.o.WideStmts {
		n = 1
	}
	var out []*Stmt
	for i := 0; i < n; i++ {
		st := b.stmt(s, a, depth)
		// an `else` needs a preceding `if`/`else`; builder emits if+else as a chain
		out = append(out, st...)
	}
	return out
}

func (b *builder) callStmt(s *Spec, a *App) *Stmt {
	type cand struct {
		app *App
		ep  *Endpoint
	}
	var cs []cand
	for _, x := range s.Apps {
		for _, e := range x.AllEndpoints() {
			if len(e.SubOf) == 0 {
				cs = append(cs, cand{x, e})
			}
		}
	}
	if len(cs) == 0 {
		return nil
	}
	c := cs[b.r.Intn(len(cs))]
	st := &Stmt{ID: b.id(), Kind: "call", Ep: EndpointKey(c.ep, c.app)}
	if c.app == a && b.r.Chance(2, 3) {
		st.Self = true
	} else {
		st.Target = c.app.Parts
	}
	if b.r.Chance(1, 5) {
		st.Args = []string{fieldWords[b.r.Intn(len(fieldWords))]}
		if b.r.Chance(1, 2) {
			st.Args = append(st.Args, fieldWords[b.r.Intn(len(fieldWords))]+" <: int")
		}
	}
	return st
}

func (b *builder) stmt(s *Spec, a *App, depth int) []*Stmt {
	k := b.r.Intn(20)
	b.budget--
	if (depth >= b.o.MaxDepth || b.budget <= 0) && k >= 9 {
		k = b.r.Intn(9)
	}
	mk := func(kind, text string) *Stmt { return &Stmt{ID: b.id(), Kind: kind, Text: text} }
	switch {
	case k < 3:
		st := mk("action", b.phrase(2, 4))
		if b.r.Chance(1, 6) {
			st.Text = b.phrase(1, 3) + ", (" + b.strVal2() + ")"
			st.Quote = '"'
			if b.r.Chance(1, 3) {
				st.Quote = '\''
			}
		}
		if b.r.Chance(1, 5) {
			st.Attrs = b.attrs("st", 1, 2, true)
		}
		return []*Stmt{st}
	case k < 6:
		if st := b.callStmt(s, a); st != nil {
			if b.r.Chance(1, 6) {
				st.Attrs = b.attrs("st", 1, 2, true)
			}
			return []*Stmt{st}
		}
		return []*Stmt{mk("action", b.phrase(2, 3))}
	case k < 8:
		return []*Stmt{mk("ret", b.retPayload(s, a))}
	case k < 9:
		if depth > 0 {
			return []*Stmt{mk("action", b.phrase(2, 3))}
		}
		st := mk("doc", b.phrase(1, 4))
		if b.r.Chance(1, 2) {
			return []*Stmt{st, mk("doc", b.phrase(1, 3))}
		}
		return []*Stmt{st}
	case k < 12:
		out := []*Stmt{{ID: b.id(), Kind: "if", Text: b.phrase(1, 3), Body: b.stmts(s, a, depth+1)}}
		for b.r.Chance(2, 5) && len(out) < 4 {
			out = append(out, &Stmt{ID: b.id(), Kind: "else", Text: "if " + b.phrase(1, 2), Body: b.stmts(s, a, depth+1)})
		}
		if b.r.Chance(1, 2) {
			out = append(out, &Stmt{ID: b.id(), Kind: "else", Body: b.stmts(s, a, depth+1)})
		}
		return out
	case k < 16:
		kind := []string{"for", "foreach", "loop", "while", "until", "alt"}[b.r.Intn(6)]
		return []*Stmt{{ID: b.id(), Kind: kind, Text: b.phrase(1, 3), Body: b.stmts(s, a, depth+1)}}
	case k < 18:
		st := &Stmt{ID: b.id(), Kind: "oneof"}
		n := b.r.Range(1, 3)
		for i := 0; i < n; i++ {
			st.Cases = append(st.Cases, &Stmt{ID: b.id(), Kind: "case", Text: fmt.Sprintf("%s %d", textWords[b.r.Intn(len(textWords))], i), Body: b.stmts(s, a, depth+1)})
		}
		return []*Stmt{st}
	default:
		return []*Stmt{{ID: b.id(), Kind: "group", Text: "grp " + b.phrase(1, 2), Body: b.stmts(s, a, depth+1)}}
	}
}

func (b *builder) strVal2() string {
	return textWords[b.r.Intn(len(textWords))] + "." + fmt.Sprint(b.r.Intn(100))
}

func (b *builder) retPayload(s *Spec, a *App) string {
	status := []string{"ok", "error", "200", "404", "500"}[b.r.Intn(5)]
	if b.r.Chance(1, 6) {
		return status
	}
	var ty string
	ts := a.Types()
	switch {
	case len(ts) > 0 && b.r.Chance(1, 2):
		ty = RenderName(ts[b.r.Intn(len(ts))].Name)
	default:
		ty = []string{"string", "int", "bool"}[b.r.Intn(3)]
	}
	if b.r.Chance(1, 4) {
		ty = "sequence of " + ty
	}
	return status + " <: " + ty
}

// EndpointKey is the key under which the compiler files an endpoint.
func EndpointKey(ep *Endpoint, a *App) string {
	return ep.Name
}
