package gen

import (
	"fmt"
	"path"
	"strings"

	"verif/fw"
)

// SplitOpts bounds a random partition of a description into blocks and files (C04, C08).
type SplitOpts struct {
	MaxBlocks  int  // per application (>= 1)
	MaxFiles   int  // >= 1
	SplitTypes bool // fields of one tuple/table spread over two declarations of the type
	SplitRest  bool // methods/sub-paths of one REST path spread over two declarations of the path
	StubEps    bool // a simple endpoint with statements is declared once more as a one-line `Name: ...` stub
}

// SplitPlan partitions every application's members into 1..MaxBlocks blocks, assigns the
// blocks to 1..MaxFiles files connected by a random import graph (every file reachable
// from the root, cycles and diamonds allowed) and permutes blocks and imports.
// Application attributes, annotations and mixins stay on the header block.
func SplitPlan(s *Spec, r *fw.Rand, o SplitOpts) *Plan {
	nFiles := r.Range(1, o.MaxFiles)
	names := []string{"root.sysl"}
	for i := 1; i < nFiles; i++ {
		switch r.Intn(3) {
		case 0:
			names = append(names, fmt.Sprintf("part%d.sysl", i))
		case 1:
			names = append(names, fmt.Sprintf("sub/part%d.sysl", i))
		default:
			names = append(names, fmt.Sprintf("sub/deep/part%d.sysl", i))
		}
	}
	files := make([]*File, nFiles)
	for i := range files {
		files[i] = &File{Name: names[i]}
	}
	// import graph: a random spanning tree from the root plus extra edges
	for i := 1; i < nFiles; i++ {
		from := r.Intn(i)
		files[from].Imports = append(files[from].Imports, importSpelling(r, names[from], names[i]))
	}
	for k := r.Intn(nFiles + 1); k > 0 && nFiles > 1; k-- {
		a, b := r.Intn(nFiles), r.Intn(nFiles)
		if a == b && !r.Chance(1, 3) {
			continue
		}
		sp := importSpelling(r, names[a], names[b])
		dup := false
		for _, x := range files[a].Imports {
			if x == sp {
				dup = true
			}
		}
		if !dup {
			files[a].Imports = append(files[a].Imports, sp)
		}
	}
	for _, f := range files {
		p := r.Perm(len(f.Imports))
		imps := make([]string, len(p))
		for i, j := range p {
			imps[i] = f.Imports[j]
		}
		f.Imports = imps
	}
	type placed struct {
		b    *Block
		file int
	}
	var all []placed
	for _, a := range s.Apps {
		var head, rest []Member
		for _, m := range a.Members {
			if m.Anno != nil || m.Mixin != nil {
				head = append(head, m)
				continue
			}
			// optional split of one type / one REST path into two declarations
			if o.SplitTypes && m.Type != nil && (m.Type.Kind == "type" || m.Type.Kind == "table") && len(m.Type.Fields) >= 2 && r.Chance(1, 2) {
				cut := r.Range(1, len(m.Type.Fields)-1)
				t1, t2 := *m.Type, *m.Type
				t1.Fields = m.Type.Fields[:cut]
				t2.Fields = m.Type.Fields[cut:]
				t2.Attrs, t2.Annos = nil, nil
				rest = append(rest, Member{Type: &t1}, Member{Type: &t2})
				continue
			}
			if o.SplitRest && m.Rest != nil && len(m.Rest.Items) >= 2 && r.Chance(1, 2) {
				cut := r.Range(1, len(m.Rest.Items)-1)
				n1, n2 := *m.Rest, *m.Rest
				n1.Items = m.Rest.Items[:cut]
				n2.Items = m.Rest.Items[cut:]
				rest = append(rest, Member{Rest: &n1}, Member{Rest: &n2})
				continue
			}
			rest = append(rest, m)
			if o.StubEps && m.Ep != nil && !m.Ep.Event && len(m.Ep.SubOf) == 0 && m.Ep.Method == "" && len(m.Ep.Stmts) > 0 && r.Chance(1, 4) {
				stub := &Endpoint{ID: m.Ep.ID, Name: m.Ep.Name}
				rest = append(rest, Member{Ep: stub})
			}
		}
		k := r.Range(1, o.MaxBlocks)
		if k > len(rest)+1 {
			k = len(rest) + 1
		}
		blocks := make([]*Block, k)
		for i := range blocks {
			blocks[i] = &Block{App: a}
		}
		hb := r.Intn(k)
		blocks[hb].Header = true
		blocks[hb].Members = append(blocks[hb].Members, head...)
		perm := r.Perm(len(rest))
		for idx, j := range perm {
			bi := r.Intn(k)
			if idx < k {
				bi = idx // every block gets at least one member when possible
			}
			blocks[bi].Members = append(blocks[bi].Members, rest[j])
		}
		for _, b := range blocks {
			if len(b.Members) == 0 && !b.Header {
				continue
			}
			if len(b.Members) == 0 {
				// a header block needs a body: keep it only if it can carry one member
				if len(rest) > 0 {
					// steal one member from another block
					for _, ob := range blocks {
						if ob != b && len(ob.Members) > 1 {
							b.Members = append(b.Members, ob.Members[len(ob.Members)-1])
							ob.Members = ob.Members[:len(ob.Members)-1]
							break
						}
					}
				}
				if len(b.Members) == 0 {
					// merge header into some other non-empty block
					for _, ob := range blocks {
						if ob != b && len(ob.Members) > 0 {
							ob.Header = true
							break
						}
					}
					continue
				}
			}
			all = append(all, placed{b, r.Intn(nFiles)})
		}
	}
	// permute block order globally, then drop into files
	p := r.Perm(len(all))
	for _, j := range p {
		files[all[j].file].Blocks = append(files[all[j].file].Blocks, all[j].b)
	}
	return &Plan{Files: files}
}

// importSpelling writes the path of file `to` as seen from file `from`: relative to the
// importing file's directory (with ../ where needed), or root-relative with a leading
// slash; the .sysl extension is optional.
func importSpelling(r *fw.Rand, from, to string) string {
	var sp string
	if r.Chance(1, 3) {
		sp = "/" + to
	} else {
		fd := path.Dir(from)
		if fd == "." {
			sp = to
		} else {
			up := strings.Count(fd, "/") + 1
			// climb to the root, then descend — or use the common prefix when inside it
			if strings.HasPrefix(to, fd+"/") {
				sp = strings.TrimPrefix(to, fd+"/")
			} else {
				sp = strings.Repeat("../", up) + to
			}
		}
		if r.Chance(1, 4) && !strings.HasPrefix(sp, "../") {
			sp = "./" + sp
		}
	}
	if r.Chance(1, 2) {
		sp = strings.TrimSuffix(sp, ".sysl")
	}
	return sp
}

// FlattenOrder is the reference for the order in which the compiler processes the files
// of a plan: depth-first pre-order from the root following import statements in textual
// order, each file once.
func FlattenOrder(p *Plan) []string {
	byName := map[string]*File{}
	for _, f := range p.Files {
		byName[f.Name] = f
	}
	var order []string
	seen := map[string]bool{}
	var visit func(name string)
	visit = func(name string) {
		if seen[name] {
			return
		}
		f := byName[name]
		if f == nil {
			return
		}
		seen[name] = true
		order = append(order, name)
		for _, imp := range f.Imports {
			visit(ResolveImport(name, imp))
		}
	}
	visit(p.Files[0].Name)
	return order
}

// ResolveImport computes the file an import statement denotes (own lexical resolution).
func ResolveImport(from, spelled string) string {
	if !strings.HasSuffix(spelled, ".sysl") {
		spelled += ".sysl"
	}
	var segs []string
	if !strings.HasPrefix(spelled, "/") {
		if d := path.Dir(from); d != "." {
			segs = strings.Split(d, "/")
		}
	}
	for _, s := range strings.Split(strings.TrimPrefix(spelled, "/"), "/") {
		switch s {
		case "", ".":
		case "..":
			if len(segs) > 0 {
				segs = segs[:len(segs)-1]
			}
		default:
			segs = append(segs, s)
		}
	}
	return strings.Join(segs, "/")
}
