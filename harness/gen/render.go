package gen

import (
	"fmt"
	"sort"
	"strings"
	"unicode/utf8"

	"verif/fw"
)

// Layout holds the legal surface choices of one rendering.
type Layout struct {
	Indent   int  // spaces per level (1..8)
	Tabs     bool // write each 4-space unit at line start as a tab (only when Indent%4==0)
	Blank    int  // chance out of 12 of blank line(s) before a line
	Comment  int  // chance out of 12 of a whole-line comment before a line
	SepStyle int  // 0 " :: ", 1 "::", 2 " ::"
	R        *fw.Rand
}

func RandomLayout(r *fw.Rand) Layout {
	l := Layout{Indent: r.Range(1, 8), Blank: r.Intn(4), Comment: r.Intn(3), SepStyle: r.Intn(3), R: r}
	if r.Chance(1, 2) {
		l.Indent = 4
	}
	if l.Indent%4 == 0 && r.Chance(1, 3) {
		l.Tabs = true
	}
	return l
}

func PlainLayout() Layout { return Layout{Indent: 4} }

// Mark records where the renderer wrote the first character of an element's declaration.
type Mark struct {
	Kind string // app type field ep stmt anno attr
	ID   int    // element identity (Spec IDs); attrs/annos: owner ID
	Name string // for anno/attr: name
	File string
	Line int // zero-based
	Col  int // zero-based, in runes
}

// Block is one `App:` declaration holding a subset of the app's members.
type Block struct {
	App     *App
	Header  bool // carries the long name and attributes
	Members []Member
}

type File struct {
	Name    string
	Imports []string // import paths as written (without "import ")
	Blocks  []*Block
}

// Plan says which blocks go to which files. Files[0] is the root.
type Plan struct {
	Files []*File
}

// JoinedPlan puts every application in one block in one file.
func JoinedPlan(s *Spec, name string) *Plan {
	f := &File{Name: name}
	for _, a := range s.Apps {
		f.Blocks = append(f.Blocks, &Block{App: a, Header: true, Members: a.Members})
	}
	return &Plan{Files: []*File{f}}
}

type Rendered struct {
	Files map[string]string
	Order []string // file names, root first
	Marks []Mark   // in writing order per file
}

type out struct {
	b     strings.Builder
	file  string
	line  int
	l     Layout
	marks *[]Mark
	first bool
}

func (o *out) indentStr(level int) string {
	n := level * o.l.Indent
	if o.l.Tabs {
		return strings.Repeat("\t", n/4) + strings.Repeat(" ", n%4)
	}
	return strings.Repeat(" ", n)
}

func (o *out) raw(s string) {
	o.b.WriteString(s)
	o.line += strings.Count(s, "\n")
}

// ln writes one line at a nesting level; noise (blank lines / comments) may precede it.
// It returns the (line, col) of the first character of text.
func (o *out) ln(level int, text string, noise bool) (int, int) {
	if noise && o.l.R != nil {
		if o.l.R.Intn(12) < o.l.Blank {
			for k := o.l.R.Range(1, 2); k > 0; k-- {
				if o.l.R.Chance(1, 3) {
					o.raw(strings.Repeat(" ", o.l.R.Range(1, 6)) + "\n")
				} else {
					o.raw("\n")
				}
			}
		}
		if o.l.R.Intn(12) < o.l.Comment {
			switch o.l.R.Intn(5) {
			case 0:
				o.raw("# note " + fmt.Sprint(o.l.R.Intn(100)) + "\n")
			case 1:
				o.raw(o.indentStr(level) + "# indented: note [x] \"q\" <: int\n")
			case 2:
				o.raw(o.indentStr(level) + "#\n")
			case 3:
				o.raw(o.indentStr(level+1+o.l.R.Intn(3)) + "# deeper than the next line\n")
			default:
				o.raw(strings.Repeat(" ", o.l.R.Intn(11)) + "# at an arbitrary column\n")
			}
		}
	}
	ind := o.indentStr(level)
	line := o.line
	col := utf8.RuneCountInString(ind)
	o.raw(ind + text + "\n")
	return line, col
}

func (o *out) mark(kind string, id int, name string, line, col int) {
	*o.marks = append(*o.marks, Mark{Kind: kind, ID: id, Name: name, File: o.file, Line: line, Col: col})
}

// ---- token-level renderers ----

// RenderName escapes a name so that it lexes as one Name token.
func RenderName(n string) string {
	var b strings.Builder
	for i := 0; i < len(n); i++ {
		c := n[i]
		switch {
		case c >= 'a' && c <= 'z', c >= 'A' && c <= 'Z', c >= '0' && c <= '9', c == '_':
			b.WriteByte(c)
		case c == '-' && i > 0:
			b.WriteByte(c)
		default:
			fmt.Fprintf(&b, "%%%02X", c)
		}
	}
	return b.String()
}

func (l Layout) appName(parts []string) string {
	sep := []string{" :: ", "::", " ::"}[l.SepStyle%3]
	ps := make([]string, len(parts))
	for i, p := range parts {
		ps[i] = RenderName(p)
	}
	return strings.Join(ps, sep)
}

// QuoteD renders a double-quoted Sysl string whose value is s.
func QuoteD(s string) string {
	var b strings.Builder
	b.WriteByte('"')
	for _, r := range s {
		switch r {
		case '"':
			b.WriteString(`\"`)
		case '\\':
			b.WriteString(`\\`)
		case '\n':
			b.WriteString(`\n`)
		case '\t':
			b.WriteString(`\t`)
		case '\r':
			b.WriteString(`\r`)
		default:
			b.WriteRune(r)
		}
	}
	b.WriteByte('"')
	return b.String()
}

func (l Layout) qstr(s string) string {
	if l.R != nil && !strings.ContainsAny(s, "'\\\n\t\r") && s != "" && l.R.Chance(1, 5) {
		return "'" + s + "'"
	}
	return QuoteD(s)
}

func (l Layout) attrVal(v AttrVal) string {
	if !v.IsArr {
		return l.qstr(v.S)
	}
	parts := make([]string, len(v.Arr))
	for i, e := range v.Arr {
		parts[i] = l.attrVal(e)
	}
	sep := ","
	if l.R != nil && l.R.Chance(1, 2) {
		sep = ", "
	}
	return "[" + strings.Join(parts, sep) + "]"
}

func (l Layout) attrList(as []Attr) string {
	if len(as) == 0 {
		return ""
	}
	parts := make([]string, len(as))
	for i, a := range as {
		if a.Tag {
			parts[i] = "~" + a.Name
		} else {
			parts[i] = a.Name + "=" + l.attrVal(a.Val)
		}
	}
	return " [" + strings.Join(parts, ", ") + "]"
}

func sizeStr(s *SizeSpec) string {
	if s == nil {
		return ""
	}
	switch s.Kind {
	case "len":
		return fmt.Sprintf("(%d)", s.A)
	case "dec":
		return fmt.Sprintf("(%d.%d)", s.A, s.B)
	case "range":
		return fmt.Sprintf("(%d..%d)", s.A, s.B)
	default:
		return fmt.Sprintf("(%d..)", s.A)
	}
}

func (l Layout) typeExpr(e TypeExpr) string {
	var base string
	if e.Prim != "" {
		base = e.Prim
	} else {
		ps := []string{}
		if len(e.RefApp) > 0 {
			ps = append(ps, l.appName(e.RefApp))
		}
		for _, p := range e.RefPath {
			ps = append(ps, RenderName(p))
		}
		base = strings.Join(ps, ".")
	}
	base += sizeStr(e.Size)
	switch e.Coll {
	case "set":
		base = "set of " + base
	case "sequence":
		base = "sequence of " + base
	}
	if e.Opt {
		base += "?"
	}
	return base
}

// ---- block renderers ----

func (o *out) annos(level int, owner int, as []Attr) {
	for _, a := range as {
		o.anno(level, owner, a)
	}
}

func (o *out) anno(level int, owner int, a Attr) {
	if a.Multi {
		ln, col := o.ln(level, "@"+a.Name+" =:", true)
		o.mark("anno", owner, a.Name, ln, col)
		for _, part := range strings.Split(strings.TrimSuffix(a.Val.S, "\n"), "\n") {
			o.ln(level+1, "| "+part, false)
		}
		return
	}
	ln, col := o.ln(level, "@"+a.Name+" = "+o.l.attrVal(a.Val), true)
	o.mark("anno", owner, a.Name, ln, col)
}

func (o *out) typ(level int, t *Type) {
	kw := map[string]string{"type": "!type", "table": "!table", "enum": "!enum", "alias": "!alias", "union": "!union"}[t.Kind]
	head := kw + " " + RenderName(t.Name) + o.l.attrList(t.Attrs) + ":"
	switch t.Kind {
	case "type", "table":
		ln, col := o.ln(level, head, true)
		o.mark("type", t.ID, "", ln, col)
		o.annos(level+1, t.ID, t.Annos)
		if len(t.Fields) == 0 && len(t.Annos) == 0 {
			o.ln(level+1, "...", false)
		}
		for _, f := range t.Fields {
			if len(f.Inplace) > 0 {
				ln, col := o.ln(level+1, RenderName(f.Name)+" <:", true)
				o.mark("field", f.ID, "", ln, col)
				for _, g := range f.Inplace {
					gl, gc := o.ln(level+2, RenderName(g.Name)+" <: "+o.l.typeExpr(g.T), true)
					o.mark("field", g.ID, "", gl, gc)
				}
				continue
			}
			if f.List != nil {
				ln, col := o.ln(level+1, RenderName(f.Name)+sizeStr(f.List)+" <: "+o.l.typeExpr(f.T)+o.l.attrList(f.Attrs), true)
				o.mark("field", f.ID, "", ln, col)
				continue
			}
			text := RenderName(f.Name) + " <: " + o.l.typeExpr(f.T) + o.l.attrList(f.Attrs)
			if f.Doc != "" {
				text += " " + QuoteD(f.Doc)
			}
			if len(f.Annos) > 0 {
				// docstring and annotations cannot be combined: annotations win
				text = RenderName(f.Name) + " <: " + o.l.typeExpr(f.T) + o.l.attrList(f.Attrs) + ":"
			}
			ln, col := o.ln(level+1, text, true)
			o.mark("field", f.ID, "", ln, col)
			o.annos(level+2, f.ID, f.Annos)
		}
	case "enum":
		ln, col := o.ln(level, head, true)
		o.mark("type", t.ID, "", ln, col)
		for _, it := range t.Items {
			o.ln(level+1, fmt.Sprintf("%s: %d", it.Name, it.Val), true)
		}
	case "alias":
		ln, col := o.ln(level, head, true)
		o.mark("type", t.ID, "", ln, col)
		o.ln(level+1, o.l.typeExpr(*t.Alias), false)
	case "union":
		ln, col := o.ln(level, head, true)
		o.mark("type", t.ID, "", ln, col)
		if len(t.Members) == 0 {
			o.ln(level+1, "...", false)
		}
		for _, m := range t.Members {
			o.ln(level+1, o.l.typeExpr(m), true)
		}
	}
}

func (o *out) params(ps []Param) string {
	if len(ps) == 0 {
		return ""
	}
	parts := make([]string, len(ps))
	for i, p := range ps {
		parts[i] = RenderName(p.Name) + " <: " + o.l.typeExpr(p.T)
	}
	return " (" + strings.Join(parts, ", ") + ")"
}

func (o *out) stmts(level int, ss []*Stmt) {
	for _, s := range ss {
		o.stmt(level, s)
	}
}

func (o *out) stmt(level int, s *Stmt) {
	var ln, col int
	switch s.Kind {
	case "action":
		text := s.Text
		if s.Quote == '"' {
			text = QuoteD(s.Text)
		} else if s.Quote == '\'' {
			text = "'" + s.Text + "'"
		}
		ln, col = o.ln(level, text+o.l.attrList(s.Attrs), true)
	case "call":
		t := ". <- "
		if !s.Self {
			t = o.l.appName(s.Target) + " <- "
		}
		text := t + s.Ep
		if len(s.Args) > 0 {
			text += " (" + strings.Join(s.Args, ", ") + ")"
		}
		ln, col = o.ln(level, text+o.l.attrList(s.Attrs), true)
	case "ret":
		ln, col = o.ln(level, "return "+s.Text, true)
	case "doc":
		ln, col = o.ln(level, "| "+s.Text, true)
	case "if":
		ln, col = o.ln(level, "if "+s.Text+":", true)
		o.stmts(level+1, s.Body)
	case "else":
		if s.Text != "" {
			ln, col = o.ln(level, "else "+s.Text+":", true)
		} else {
			ln, col = o.ln(level, "else:", true)
		}
		o.stmts(level+1, s.Body)
	case "for", "loop", "while", "until", "alt":
		ln, col = o.ln(level, s.Kind+" "+s.Text+":", true)
		o.stmts(level+1, s.Body)
	case "foreach":
		ln, col = o.ln(level, "for each "+s.Text+":", true)
		o.stmts(level+1, s.Body)
	case "oneof":
		ln, col = o.ln(level, "one of:", true)
		for _, c := range s.Cases {
			cl, cc := o.ln(level+1, c.Text+":", true)
			o.mark("case", c.ID, "", cl, cc)
			o.stmts(level+2, c.Body)
		}
	case "group":
		ln, col = o.ln(level, s.Text+":", true)
		o.stmts(level+1, s.Body)
	default:
		panic("render: unknown stmt kind " + s.Kind)
	}
	o.mark("stmt", s.ID, "", ln, col)
}

func (o *out) endpoint(level int, ep *Endpoint) {
	var head string
	switch {
	case ep.Event:
		head = "<-> " + ep.Name + o.params(ep.Params) + o.l.attrList(ep.Attrs) + ":"
	case len(ep.SubOf) > 0:
		head = o.l.appName(ep.SubOf) + " -> " + ep.Name + o.l.attrList(ep.Attrs) + ":"
	default:
		head = ep.Name
		if ep.Long != "" {
			head += " " + QuoteD(ep.Long)
		}
		head += o.params(ep.Params) + o.l.attrList(ep.Attrs) + ":"
	}
	if len(ep.Stmts) == 0 {
		ln, col := o.ln(level, head+" ...", true)
		o.mark("ep", ep.ID, "", ln, col)
		return
	}
	ln, col := o.ln(level, head, true)
	o.mark("ep", ep.ID, "", ln, col)
	o.stmts(level+1, ep.Stmts)
}

func pathText(l Layout, segs []PathSeg) string {
	var b strings.Builder
	for _, s := range segs {
		b.WriteString("/")
		switch {
		case s.Var != "" && s.Prim != "":
			b.WriteString("{" + s.Var + " <: " + s.Prim + "}")
		case s.Var != "":
			b.WriteString("{" + s.Var + " <: " + RenderName(s.Ref) + "}")
		default:
			b.WriteString(s.Static)
		}
	}
	return b.String()
}

func (o *out) rest(level int, n *RestNode) {
	o.ln(level, pathText(o.l, n.Segs)+o.l.attrList(n.Attrs)+":", true)
	o.annos(level+1, n.ID, n.Annos)
	for _, it := range n.Items {
		if it.C != nil {
			o.rest(level+1, it.C)
			continue
		}
		m := it.M
		head := m.Method + o.params(m.Params)
		if len(m.Query) > 0 {
			qs := make([]string, len(m.Query))
			for i, q := range m.Query {
				t := q.Prim
				if t == "" {
					t = "{" + q.Ref + "}"
				}
				qs[i] = q.Name + "=" + t
				if q.Opt {
					qs[i] += "?"
				}
			}
			head += " ?" + strings.Join(qs, "&")
		}
		head += o.l.attrList(m.Attrs) + ":"
		ln, col := o.ln(level+1, head, true)
		o.mark("ep", m.ID, "", ln, col)
		o.stmts(level+2, m.Stmts)
	}
}

func (o *out) member(level int, owner *App, m Member) {
	switch {
	case m.Type != nil:
		o.typ(level, m.Type)
	case m.Ep != nil:
		o.endpoint(level, m.Ep)
	case m.Rest != nil:
		o.rest(level, m.Rest)
	case m.Mixin != nil:
		o.ln(level, "-|> "+o.l.appName(m.Mixin), true)
	case m.Anno != nil:
		o.anno(level, owner.ID, *m.Anno)
	case m.Collector != nil:
		o.ln(level, ".. * <- *:", true)
		for _, s := range m.Collector {
			if s.Kind == "call" {
				o.ln(level+1, o.l.appName(s.Target)+" <- "+s.Ep+o.l.attrList(s.Attrs), true)
			} else {
				o.ln(level+1, s.Text+o.l.attrList(s.Attrs), true)
			}
		}
	}
}

func (o *out) block(b *Block) {
	head := o.l.appName(b.App.Parts)
	if b.Header {
		if b.App.Long != "" {
			head += " " + QuoteD(b.App.Long)
		}
		head += o.l.attrList(b.App.Attrs)
	}
	ln, col := o.ln(0, head+":", true)
	o.mark("app", b.App.ID, "", ln, col)
	for _, m := range b.Members {
		o.member(1, b.App, m)
	}
}

// Render writes every file of the plan.
func Render(p *Plan, l Layout) *Rendered {
	r := &Rendered{Files: map[string]string{}}
	for _, f := range p.Files {
		o := &out{file: f.Name, l: l, marks: &r.Marks}
		for _, imp := range f.Imports {
			o.ln(0, "import "+imp, false)
		}
		for _, b := range f.Blocks {
			o.block(b)
		}
		r.Files[f.Name] = o.b.String()
		r.Order = append(r.Order, f.Name)
	}
	return r
}

// SortedFileNames is a helper for samples.
func (r *Rendered) SortedFileNames() []string {
	var ns []string
	for n := range r.Files {
		ns = append(ns, n)
	}
	sort.Strings(ns)
	return ns
}
