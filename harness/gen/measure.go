package gen

import "sort"

// Stats measures what a description contains (used for non-triviality and evidence).
type Stats struct {
	Apps, Types, Fields, RefFields, Eps, RestEps, Stmts, MaxDepth int
	Kinds                                                         []string
}

func Measure(s *Spec) Stats {
	st := Stats{Apps: len(s.Apps)}
	kinds := map[string]bool{}
	var walk func(ss []*Stmt, d int)
	walk = func(ss []*Stmt, d int) {
		for _, x := range ss {
			st.Stmts++
			kinds["stmt:"+x.Kind] = true
			if d > st.MaxDepth {
				st.MaxDepth = d
			}
			if len(x.Attrs) > 0 {
				kinds["stmt-attrs"] = true
			}
			walk(x.Body, d+1)
			for _, c := range x.Cases {
				walk(c.Body, d+2)
			}
		}
	}
	for _, a := range s.Apps {
		if len(a.Parts) > 1 {
			kinds["app:namespaced"] = true
		}
		if RenderName(a.Parts[len(a.Parts)-1]) != a.Parts[len(a.Parts)-1] {
			kinds["app:escaped"] = true
		}
		for _, m := range a.Members {
			switch {
			case m.Mixin != nil:
				kinds["mixin"] = true
			case m.Anno != nil:
				kinds["app-annotation"] = true
				if m.Anno.Multi {
					kinds["anno:multiline"] = true
				}
				if m.Anno.Val.IsArr {
					kinds["anno:array"] = true
				}
			}
		}
		for _, t := range a.Types() {
			st.Types++
			kinds["type:"+t.Kind] = true
			for _, f := range t.Fields {
				st.Fields++
				if f.T.Prim != "" {
					kinds["prim:"+f.T.Prim] = true
				} else {
					st.RefFields++
					if len(f.T.RefApp) > 0 {
						kinds["ref:cross-app"] = true
					} else {
						kinds["ref:local"] = true
					}
				}
				if f.T.Coll != "" {
					kinds["coll:"+f.T.Coll] = true
				}
				if f.T.Opt {
					kinds["opt"] = true
				}
				if f.T.Size != nil {
					kinds["size:"+f.T.Size.Kind] = true
				}
				if len(f.Annos) > 0 {
					kinds["field-annotation"] = true
				}
			}
		}
		for _, ep := range a.AllEndpoints() {
			st.Eps++
			switch {
			case ep.Method != "":
				st.RestEps++
				kinds["ep:rest:"+ep.Method] = true
			case ep.Event:
				kinds["ep:event"] = true
			case len(ep.SubOf) > 0:
				kinds["ep:subscription"] = true
			default:
				kinds["ep:simple"] = true
			}
			if len(ep.Params) > 0 {
				kinds["ep-params"] = true
			}
			if len(ep.Query) > 0 {
				kinds["ep-query"] = true
			}
			walk(ep.Stmts, 1)
		}
	}
	for k := range kinds {
		st.Kinds = append(st.Kinds, k)
	}
	sort.Strings(st.Kinds)
	return st
}
