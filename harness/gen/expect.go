package gen

import (
	"math"
	"sort"
	"strings"

	"github.com/anz-bank/sysl/pkg/sysl"
	"google.golang.org/protobuf/proto"
)

// Expect builds, from the abstract description alone, the model the specification text
// declares (source contexts are not part of it). It follows docs/docs/lang-spec.md and
// the documented synthesis rules (patterns=["rest"], publisher call statements, mixin
// copy in sorted application order); it never looks at the parser.
func Expect(s *Spec) *sysl.Module {
	m := &sysl.Module{Apps: map[string]*sysl.Application{}}
	for _, a := range s.Apps {
		app := &sysl.Application{Name: &sysl.AppName{Part: a.Parts}, LongName: a.Long}
		app.Attrs = attrMap(a.Attrs)
		m.Apps[a.Name()] = app
	}
	for _, a := range s.Apps {
		app := m.Apps[a.Name()]
		for _, mem := range a.Members {
			switch {
			case mem.Anno != nil:
				app.Attrs = addAnno(app.Attrs, *mem.Anno)
			case mem.Mixin != nil:
				app.Mixin2 = append(app.Mixin2, &sysl.Application{Name: &sysl.AppName{Part: mem.Mixin}})
			case mem.Type != nil:
				if app.Types == nil {
					app.Types = map[string]*sysl.Type{}
				}
				app.Types[mem.Type.Name] = expectType(a, mem.Type)
				for _, f := range mem.Type.Fields {
					if len(f.Inplace) > 0 {
						nested := map[string]*sysl.Type{}
						for _, g := range f.Inplace {
							nested[g.Name] = typeOf(a, []string{mem.Type.Name, f.Name}, g.T, true)
						}
						app.Types[mem.Type.Name+"."+f.Name] = &sysl.Type{Type: &sysl.Type_Tuple_{Tuple: &sysl.Type_Tuple{AttrDefs: nested}}}
					}
				}
			case mem.Ep != nil:
				if app.Endpoints == nil {
					app.Endpoints = map[string]*sysl.Endpoint{}
				}
				ep := mem.Ep
				app.Endpoints[expectEpKey(ep)] = expectEndpoint(a, ep)
			case mem.Rest != nil:
				if app.Endpoints == nil {
					app.Endpoints = map[string]*sysl.Endpoint{}
				}
				expectRest(a, app, mem.Rest, "", nil, nil)
			}
		}
	}
	// collectors: the statements of `.. * <- *` carry attributes that post-processing merges
	// into the named endpoint / into every matching call statement of the application
	for _, a := range s.Apps {
		app := m.Apps[a.Name()]
		for _, mem := range a.Members {
			if mem.Collector == nil {
				continue
			}
			if app.Endpoints == nil {
				app.Endpoints = map[string]*sysl.Endpoint{}
			}
			col := &sysl.Endpoint{Name: ".. * <- *"}
			for _, cs := range mem.Collector {
				st := &sysl.Statement{Attrs: attrMap(cs.Attrs)}
				if cs.Kind == "call" {
					st.Stmt = &sysl.Statement_Call{Call: &sysl.Call{Target: &sysl.AppName{Part: cs.Target}, Endpoint: cs.Ep}}
				} else {
					st.Stmt = &sysl.Statement_Action{Action: &sysl.Action{Action: cs.Text}}
				}
				col.Stmt = append(col.Stmt, st)
			}
			app.Endpoints[col.Name] = col
			for _, cs := range mem.Collector {
				if cs.Kind != "call" {
					if ep := app.Endpoints[cs.Text]; ep != nil {
						if ep.Attrs == nil {
							ep.Attrs = map[string]*sysl.Attribute{}
						}
						mergeInto(ep.Attrs, attrMap(cs.Attrs))
					}
					continue
				}
				var apply func(ss []*sysl.Statement)
				apply = func(ss []*sysl.Statement) {
					for _, st := range ss {
						switch x := st.Stmt.(type) {
						case *sysl.Statement_Call:
							if joinParts(x.Call.Target.GetPart()) == joinParts(cs.Target) && x.Call.Endpoint == cs.Ep {
								if st.Attrs == nil {
									st.Attrs = map[string]*sysl.Attribute{}
								}
								mergeInto(st.Attrs, attrMap(cs.Attrs))
							}
						case *sysl.Statement_Cond:
							apply(x.Cond.Stmt)
						case *sysl.Statement_Group:
							apply(x.Group.Stmt)
						case *sysl.Statement_Loop:
							apply(x.Loop.Stmt)
						case *sysl.Statement_Foreach:
							apply(x.Foreach.Stmt)
						case *sysl.Statement_Alt:
							for _, c := range x.Alt.Choice {
								apply(c.Stmt)
							}
						}
					}
				}
				for name, ep := range app.Endpoints {
					if name != col.Name {
						apply(ep.Stmt)
					}
				}
			}
		}
	}
	// subscriptions add a call statement to the publisher's event endpoint
	for _, a := range s.Apps {
		for _, mem := range a.Members {
			if mem.Ep == nil || len(mem.Ep.SubOf) == 0 {
				continue
			}
			pub := m.Apps[joinParts(mem.Ep.SubOf)]
			if pub == nil {
				pub = &sysl.Application{Name: &sysl.AppName{Part: mem.Ep.SubOf}}
				m.Apps[joinParts(mem.Ep.SubOf)] = pub
			}
			if pub.Endpoints == nil {
				pub.Endpoints = map[string]*sysl.Endpoint{}
			}
			ev := pub.Endpoints[mem.Ep.Name]
			if ev == nil {
				ev = &sysl.Endpoint{Name: mem.Ep.Name, IsPubsub: true}
				pub.Endpoints[mem.Ep.Name] = ev
			}
			ev.Stmt = append(ev.Stmt, &sysl.Statement{Stmt: &sysl.Statement_Call{Call: &sysl.Call{
				Target: &sysl.AppName{Part: a.Parts}, Endpoint: expectEpKey(mem.Ep)}}})
		}
	}
	// mixins: types of the mixed-in application are visible in the mixing one; applications
	// are post-processed in sorted name order
	names := make([]string, 0, len(m.Apps))
	for n := range m.Apps {
		names = append(names, n)
	}
	sort.Strings(names)
	for _, n := range names {
		app := m.Apps[n]
		for _, mx := range app.Mixin2 {
			src := m.Apps[joinParts(mx.Name.Part)]
			if src == nil {
				continue
			}
			for k, v := range src.Types {
				if app.Types == nil {
					app.Types = map[string]*sysl.Type{}
				}
				if _, has := app.Types[k]; !has {
					app.Types[k] = proto.Clone(v).(*sysl.Type)
				}
			}
		}
	}
	return m
}

func expectEpKey(ep *Endpoint) string {
	if len(ep.SubOf) > 0 {
		return joinParts(ep.SubOf) + " -> " + ep.Name
	}
	return ep.Name
}

func attrValue(v AttrVal) *sysl.Attribute {
	if !v.IsArr {
		return &sysl.Attribute{Attribute: &sysl.Attribute_S{S: v.S}}
	}
	arr := &sysl.Attribute_Array{}
	for _, e := range v.Arr {
		arr.Elt = append(arr.Elt, attrValue(e))
	}
	return &sysl.Attribute{Attribute: &sysl.Attribute_A{A: arr}}
}

func attrMap(as []Attr) map[string]*sysl.Attribute {
	if len(as) == 0 {
		return nil
	}
	out := map[string]*sysl.Attribute{}
	var tags []*sysl.Attribute
	for _, a := range as {
		if a.Tag {
			tags = append(tags, &sysl.Attribute{Attribute: &sysl.Attribute_S{S: a.Name}})
			continue
		}
		out[a.Name] = attrValue(a.Val)
	}
	if len(tags) > 0 {
		out["patterns"] = &sysl.Attribute{Attribute: &sysl.Attribute_A{A: &sysl.Attribute_Array{Elt: tags}}}
	}
	return out
}

func addAnno(m map[string]*sysl.Attribute, a Attr) map[string]*sysl.Attribute {
	if m == nil {
		m = map[string]*sysl.Attribute{}
	}
	m[a.Name] = attrValue(a.Val)
	return m
}

func addAnnos(m map[string]*sysl.Attribute, as []Attr) map[string]*sysl.Attribute {
	for _, a := range as {
		m = addAnno(m, a)
	}
	return m
}

var primEnum = map[string]sysl.Type_Primitive{
	"int": sysl.Type_INT, "int32": sysl.Type_INT, "int64": sysl.Type_INT,
	"float": sysl.Type_FLOAT, "float32": sysl.Type_FLOAT, "float64": sysl.Type_FLOAT,
	"string": sysl.Type_STRING, "bool": sysl.Type_BOOL, "date": sysl.Type_DATE, "datetime": sysl.Type_DATETIME,
	"decimal": sysl.Type_DECIMAL, "bytes": sysl.Type_BYTES, "any": sysl.Type_ANY,
}

func vint(i int64) *sysl.Value { return &sysl.Value{Value: &sysl.Value_I{I: i}} }

// primType: primitive kind, bit width, size constraints.
func primType(p string, sz *SizeSpec) *sysl.Type {
	t := &sysl.Type{Type: &sysl.Type_Primitive_{Primitive: primEnum[p]}}
	var bw int32
	switch p {
	case "int32":
		bw = 32
		t.Constraint = []*sysl.Type_Constraint{{BitWidth: 32, Range: &sysl.Type_Constraint_Range{Min: vint(math.MinInt32), Max: vint(math.MaxInt32)}}}
	case "int64":
		bw = 64
		t.Constraint = []*sysl.Type_Constraint{{BitWidth: 64, Range: &sysl.Type_Constraint_Range{Min: vint(math.MinInt64), Max: vint(math.MaxInt64)}}}
	case "float32":
		bw = 32
		t.Constraint = []*sysl.Type_Constraint{{BitWidth: 32}}
	case "float64":
		bw = 64
		t.Constraint = []*sysl.Type_Constraint{{BitWidth: 64}}
	}
	if sz != nil {
		c := &sysl.Type_Constraint{BitWidth: bw, Length: &sysl.Type_Constraint_Length{}}
		switch sz.Kind {
		case "len":
			c.Length.Max = sz.A
		case "dec":
			c.Length.Max = sz.A
			c.Precision = int32(sz.A)
			c.Scale = int32(sz.B)
		case "range":
			c.Length.Min = sz.A
			c.Length.Max = sz.B
		case "open":
			c.Length.Min = sz.A
		}
		t.Constraint = []*sysl.Type_Constraint{c}
	}
	return t
}

// typeOf builds the model type for a type expression declared at (app, ctxPath).
// withCtx=false is the endpoint-parameter form, which records no declaring context.
func typeOf(a *App, ctxPath []string, e TypeExpr, withCtx bool) *sysl.Type {
	var t *sysl.Type
	if e.Prim != "" {
		t = primType(e.Prim, e.Size)
	} else {
		ref := &sysl.ScopedRef{Ref: &sysl.Scope{Path: e.RefPath}}
		if len(e.RefApp) > 0 {
			ref.Ref.Appname = &sysl.AppName{Part: e.RefApp}
		}
		if withCtx {
			ref.Context = &sysl.Scope{Appname: &sysl.AppName{Part: a.Parts}, Path: ctxPath}
		}
		t = &sysl.Type{Type: &sysl.Type_TypeRef{TypeRef: ref}}
	}
	switch e.Coll {
	case "set":
		t = &sysl.Type{Type: &sysl.Type_Set{Set: t}}
	case "sequence":
		t = &sysl.Type{Type: &sysl.Type_Sequence{Sequence: t}}
	}
	t.Opt = e.Opt
	return t
}

func expectType(a *App, t *Type) *sysl.Type {
	out := &sysl.Type{}
	switch t.Kind {
	case "type", "table":
		defs := map[string]*sysl.Type{}
		var pk []string
		for _, f := range t.Fields {
			ft := fieldType(a, t, f)
			if len(f.Inplace) > 0 {
				// the field refers (by its own name, no context) to the in-place tuple type
				ft = &sysl.Type{Type: &sysl.Type_TypeRef{TypeRef: &sysl.ScopedRef{Ref: &sysl.Scope{Path: []string{f.Name}}}}}
			} else if f.List != nil {
				ft = &sysl.Type{Type: &sysl.Type_List_{List: &sysl.Type_List{Type: ft}}}
			}
			defs[f.Name] = ft
			for _, at := range f.Attrs {
				if at.Tag && at.Name == "pk" {
					pk = append(pk, f.Name)
				}
			}
		}
		if t.Kind == "type" {
			out.Type = &sysl.Type_Tuple_{Tuple: &sysl.Type_Tuple{AttrDefs: defs}}
		} else {
			rel := &sysl.Type_Relation{AttrDefs: defs}
			if len(pk) > 0 {
				rel.PrimaryKey = &sysl.Type_Relation_Key{AttrName: pk}
			}
			out.Type = &sysl.Type_Relation_{Relation: rel}
		}
		out.Attrs = addAnnos(attrMap(t.Attrs), t.Annos)
	case "enum":
		items := map[string]int64{}
		for _, it := range t.Items {
			items[it.Name] = it.Val
		}
		out.Type = &sysl.Type_Enum_{Enum: &sysl.Type_Enum{Items: items}}
		out.Attrs = attrMap(t.Attrs)
	case "alias":
		out = typeOf(a, []string{t.Name}, *t.Alias, true)
		out.Attrs = attrMap(t.Attrs)
	case "union":
		one := &sysl.Type_OneOf{}
		for _, mem := range t.Members {
			one.Type = append(one.Type, typeOf(a, []string{t.Name}, mem, true))
		}
		out.Type = &sysl.Type_OneOf_{OneOf: one}
		out.Attrs = attrMap(t.Attrs)
	}
	return out
}

func fieldType(a *App, t *Type, f *Field) *sysl.Type {
	e := f.T
	// a table column written T.col refers to column col of table T of the same application
	if len(e.RefApp) == 1 && a.FindType(e.RefApp[0]) != nil && e.Coll == "" {
		e.RefPath = append([]string{e.RefApp[0]}, e.RefPath...)
		e.RefApp = nil
	}
	ft := typeOf(a, []string{t.Name}, e, true)
	ft.Attrs = addAnnos(attrMap(f.Attrs), f.Annos)
	ft.Docstring = f.Doc
	return ft
}

func expectParams(a *App, ps []Param) []*sysl.Param {
	var out []*sysl.Param
	for _, p := range ps {
		t := typeOf(a, nil, p.T, false)
		// the parameter form records the declaring application (only) for a sequence of a reference
		if sq := t.GetSequence(); sq != nil && sq.GetTypeRef() != nil {
			sq.GetTypeRef().Context = &sysl.Scope{Appname: &sysl.AppName{Part: a.Parts}}
		}
		out = append(out, &sysl.Param{Name: p.Name, Type: t})
	}
	return out
}

func expectEndpoint(a *App, ep *Endpoint) *sysl.Endpoint {
	out := &sysl.Endpoint{Name: expectEpKey(ep), LongName: ep.Long, Attrs: attrMap(ep.Attrs)}
	out.Param = expectParams(a, ep.Params)
	out.Stmt = expectStmts(a, ep.Stmts)
	if ep.Event {
		out.IsPubsub = true
	}
	if len(ep.SubOf) > 0 {
		out.Source = &sysl.AppName{Part: ep.SubOf}
	}
	return out
}

var methodEnum = map[string]sysl.Endpoint_RestParams_Method{
	"GET": sysl.Endpoint_RestParams_GET, "PUT": sysl.Endpoint_RestParams_PUT, "POST": sysl.Endpoint_RestParams_POST,
	"DELETE": sysl.Endpoint_RestParams_DELETE, "PATCH": sysl.Endpoint_RestParams_PATCH,
}

func mergeInto(dst map[string]*sysl.Attribute, src map[string]*sysl.Attribute) {
	for k, v := range src {
		cur, has := dst[k]
		if has && cur.GetA() != nil && v.GetA() != nil {
			cur.GetA().Elt = append(cur.GetA().Elt, proto.Clone(v).(*sysl.Attribute).GetA().Elt...)
			continue
		}
		dst[k] = proto.Clone(v).(*sysl.Attribute)
	}
}

// RestPath is the URL of a node given its parent's URL.
func RestPath(prefix string, segs []PathSeg) string {
	p := prefix
	for _, s := range segs {
		if s.Var != "" {
			p += "/{" + s.Var + "}"
		} else {
			p += "/" + s.Static
		}
	}
	return p
}

func expectRest(a *App, app *sysl.Application, n *RestNode, prefix string, parentAttrs []map[string]*sysl.Attribute, parentVars []*sysl.Endpoint_RestParams_QueryParam) {
	path := RestPath(prefix, n.Segs)
	vars := append([]*sysl.Endpoint_RestParams_QueryParam{}, parentVars...)
	for _, s := range n.Segs {
		if s.Var == "" {
			continue
		}
		q := &sysl.Endpoint_RestParams_QueryParam{Name: s.Var}
		if s.Prim != "" {
			q.Type = primType(s.Prim, nil)
		} else {
			q.Type = &sysl.Type{Type: &sysl.Type_TypeRef{TypeRef: &sysl.ScopedRef{
				Context: &sysl.Scope{Appname: &sysl.AppName{Part: a.Parts}},
				Ref:     &sysl.Scope{Path: []string{s.Ref}}}}}
		}
		vars = append(vars, q)
	}
	own := addAnnos(attrMap(n.Attrs), n.Annos)
	attrsChain := append(append([]map[string]*sysl.Attribute{}, parentAttrs...), own)
	for _, it := range n.Items {
		if it.C != nil {
			expectRest(a, app, it.C, path, attrsChain, vars)
			continue
		}
		m := it.M
		ep := &sysl.Endpoint{Name: m.Method + " " + path}
		attrs := map[string]*sysl.Attribute{"patterns": {Attribute: &sysl.Attribute_A{A: &sysl.Attribute_Array{
			Elt: []*sysl.Attribute{{Attribute: &sysl.Attribute_S{S: "rest"}}}}}}}
		for _, pa := range attrsChain {
			mergeInto(attrs, pa)
		}
		mergeInto(attrs, attrMap(m.Attrs))
		ep.Attrs = attrs
		ep.RestParams = &sysl.Endpoint_RestParams{Method: methodEnum[m.Method], Path: path}
		for _, v := range vars {
			ep.RestParams.UrlParam = append(ep.RestParams.UrlParam, proto.Clone(v).(*sysl.Endpoint_RestParams_QueryParam))
		}
		for _, q := range m.Query {
			qp := &sysl.Endpoint_RestParams_QueryParam{Name: q.Name}
			if q.Prim != "" {
				qp.Type = primType(q.Prim, nil)
			} else {
				qp.Type = &sysl.Type{Type: &sysl.Type_TypeRef{TypeRef: &sysl.ScopedRef{
					Context: &sysl.Scope{Appname: &sysl.AppName{Part: a.Parts}},
					Ref:     &sysl.Scope{Path: []string{q.Ref}}}}}
			}
			qp.Type.Opt = q.Opt
			ep.RestParams.QueryParam = append(ep.RestParams.QueryParam, qp)
		}
		ep.Param = expectParams(a, m.Params)
		stmts := m.Stmts
		// leading `| text` lines of a REST method are its docstring
		var doc []string
		for len(stmts) > 0 && stmts[0].Kind == "doc" {
			doc = append(doc, stmts[0].Text)
			stmts = stmts[1:]
		}
		ep.Docstring = strings.Join(doc, " ")
		ep.Stmt = expectStmts(a, stmts)
		app.Endpoints[ep.Name] = ep
		m.Name = ep.Name
	}
}

// StmtText is the source text of an action statement.
func StmtText(s *Stmt) string {
	switch s.Quote {
	case '"':
		return QuoteD(s.Text)
	case '\'':
		return "'" + s.Text + "'"
	}
	return s.Text
}

func expectStmts(a *App, ss []*Stmt) []*sysl.Statement {
	var out []*sysl.Statement
	for i := 0; i < len(ss); i++ {
		s := ss[i]
		st := &sysl.Statement{Attrs: attrMap(s.Attrs)}
		switch s.Kind {
		case "action":
			st.Stmt = &sysl.Statement_Action{Action: &sysl.Action{Action: StmtText(s)}}
		case "doc":
			text := "| " + s.Text
			for i+1 < len(ss) && ss[i+1].Kind == "doc" {
				i++
				text += " " + ss[i].Text
			}
			st.Stmt = &sysl.Statement_Action{Action: &sysl.Action{Action: text}}
		case "call":
			c := &sysl.Call{Endpoint: s.Ep}
			if s.Self {
				c.Target = &sysl.AppName{Part: a.Parts}
			} else {
				c.Target = &sysl.AppName{Part: s.Target}
			}
			for _, arg := range s.Args {
				c.Arg = append(c.Arg, &sysl.Call_Arg{Name: arg})
			}
			st.Stmt = &sysl.Statement_Call{Call: c}
		case "ret":
			st.Stmt = &sysl.Statement_Ret{Ret: &sysl.Return{Payload: s.Text}}
		case "if":
			st.Stmt = &sysl.Statement_Cond{Cond: &sysl.Cond{Test: "if " + s.Text, Stmt: expectStmts(a, s.Body)}}
		case "else":
			test := "else"
			if s.Text != "" {
				test += " " + s.Text
			}
			st.Stmt = &sysl.Statement_Cond{Cond: &sysl.Cond{Test: test, Stmt: expectStmts(a, s.Body)}}
		case "for", "loop", "alt":
			st.Stmt = &sysl.Statement_Group{Group: &sysl.Group{Title: s.Kind + " " + s.Text, Stmt: expectStmts(a, s.Body)}}
		case "group":
			st.Stmt = &sysl.Statement_Group{Group: &sysl.Group{Title: s.Text, Stmt: expectStmts(a, s.Body)}}
		case "foreach":
			st.Stmt = &sysl.Statement_Foreach{Foreach: &sysl.Foreach{Collection: s.Text, Stmt: expectStmts(a, s.Body)}}
		case "while":
			st.Stmt = &sysl.Statement_Loop{Loop: &sysl.Loop{Mode: sysl.Loop_WHILE, Criterion: s.Text, Stmt: expectStmts(a, s.Body)}}
		case "until":
			st.Stmt = &sysl.Statement_Loop{Loop: &sysl.Loop{Mode: sysl.Loop_UNTIL, Criterion: s.Text, Stmt: expectStmts(a, s.Body)}}
		case "oneof":
			alt := &sysl.Alt{}
			for _, c := range s.Cases {
				alt.Choice = append(alt.Choice, &sysl.Alt_Choice{Cond: c.Text, Stmt: expectStmts(a, c.Body)})
			}
			st.Stmt = &sysl.Statement_Alt{Alt: alt}
		}
		out = append(out, st)
	}
	return out
}
