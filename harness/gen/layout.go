package gen

import (
	"strings"

	"verif/fw"
)

// Layout transformations of Sysl text (C03). Only leading whitespace, blank lines and
// whole-line comments are touched; line content is kept byte for byte.

func leadWidth(line string) (width, n int) {
	for n < len(line) {
		switch line[n] {
		case ' ':
			width++
		case '\t':
			width += 4 // a tab counts as 4 columns (documented rule)
		default:
			return
		}
		n++
	}
	return
}

func isBlank(line string) bool { return strings.TrimSpace(line) == "" }

// contentLines marks lines that start inside a double-quoted string left open by an
// earlier line: such lines are string content, not layout, and are never touched.
func contentLines(lines []string) []bool {
	out := make([]bool, len(lines))
	open := false
	for i, l := range lines {
		out[i] = open
		t := strings.TrimLeft(l, " \t")
		if !open && (strings.HasPrefix(t, "|") || strings.HasPrefix(t, "#")) {
			continue // free text lines: quotes in them do not delimit strings
		}
		for j := 0; j < len(l); j++ {
			switch l[j] {
			case '\\':
				if open {
					j++
				}
			case '"':
				open = !open
			}
		}
	}
	return out
}

// Reindent multiplies the leading width of every non-blank line by k (spaces only).
func Reindent(text string, k int) string {
	lines := strings.Split(text, "\n")
	content := contentLines(lines)
	for i, l := range lines {
		if isBlank(l) || content[i] {
			continue
		}
		w, n := leadWidth(l)
		lines[i] = strings.Repeat(" ", w*k) + l[n:]
	}
	return strings.Join(lines, "\n")
}

// Tabify writes each leading 4-column unit as a tab.
func Tabify(text string) string {
	lines := strings.Split(text, "\n")
	content := contentLines(lines)
	for i, l := range lines {
		if isBlank(l) || content[i] {
			continue
		}
		w, n := leadWidth(l)
		lines[i] = strings.Repeat("\t", w/4) + strings.Repeat(" ", w%4) + l[n:]
	}
	return strings.Join(lines, "\n")
}

// TabifyMixed writes the leading width of each line as a mixture of tabs (4 columns each)
// and spaces in a PRNG-chosen order (spaces first, tabs first or interleaved); the width
// under the documented rule (tab = 4 columns) is unchanged.
func TabifyMixed(text string, r *fw.Rand) string {
	lines := strings.Split(text, "\n")
	content := contentLines(lines)
	for i, l := range lines {
		if isBlank(l) || content[i] {
			continue
		}
		w, n := leadWidth(l)
		tabs, spaces := w/4, w%4
		if tabs > 0 && r.Chance(1, 3) { // trade one tab for four spaces
			tabs--
			spaces += 4
		}
		var b strings.Builder
		for tabs > 0 || spaces > 0 {
			if tabs > 0 && (spaces == 0 || r.Chance(1, 2)) {
				b.WriteByte('\t')
				tabs--
			} else {
				b.WriteByte(' ')
				spaces--
			}
		}
		lines[i] = b.String() + l[n:]
	}
	return strings.Join(lines, "\n")
}

// InsertBlanks inserts blank lines at line boundaries: mode 0 = before every line,
// otherwise at a PRNG-chosen subset (about 1 in mode).
func InsertBlanks(text string, r *fw.Rand, mode int) string {
	lines := strings.Split(text, "\n")
	content := contentLines(lines)
	var out []string
	for i, l := range lines {
		if i > 0 && !content[i] && (mode == 0 || r.Intn(mode) == 0) {
			if r.Chance(1, 4) {
				out = append(out, strings.Repeat(" ", r.Range(1, 9)))
			} else {
				out = append(out, "")
			}
		}
		out = append(out, l)
	}
	return strings.Join(out, "\n")
}

// InsertComments adds whole-line comments before declaration lines. anyLine=true: before
// any line that is not a `|` continuation or string content; anyLine=false: only before
// application headers (column 0) and application members (the indentation of the first
// indented line after the header) — used for files with views, whose expression bodies
// are not declarations. freq: about 1 in freq boundaries (1 = every boundary).
func InsertComments(text string, r *fw.Rand, anyLine bool, freq int) string {
	lines := strings.Split(text, "\n")
	content := contentLines(lines)
	var out []string
	memberW := -1
	prevIndent := ""
	for i, l := range lines {
		if isBlank(l) || content[i] {
			out = append(out, l)
			continue
		}
		w, n := leadWidth(l)
		rest := l[n:]
		if strings.HasPrefix(rest, "#") {
			out = append(out, l)
			continue
		}
		if w == 0 {
			memberW = -1
		} else if memberW < 0 {
			memberW = w
		}
		boundary := !strings.HasPrefix(rest, "|")
		if !anyLine && w != 0 && w != memberW {
			boundary = false
		}
		if boundary && (freq <= 1 || r.Intn(freq) == 0) {
			switch r.Intn(6) {
			case 0:
				out = append(out, "# inserted comment: !type X [~y] <: int")
			case 1:
				out = append(out, l[:n]+"# inserted \"indented\" comment")
			case 2:
				out = append(out, l[:n]+"#")
			case 3:
				// at the indentation of the previous code line (e.g. trailing a nested block
				// that the next line closes)
				out = append(out, prevIndent+"# comment trailing the previous block")
			case 4:
				// deeper than both neighbours
				out = append(out, prevIndent+l[:n]+"    # deeper comment")
			default:
				out = append(out, strings.Repeat(" ", r.Intn(13))+"# comment at an arbitrary column")
			}
		}
		out = append(out, l)
		prevIndent = l[:n]
	}
	if r.Chance(1, 2) {
		out = append(out, "# trailing comment")
	}
	return strings.Join(out, "\n")
}

// MemberWidth returns the indentation width of the first indented line (application
// member level) of a file, or 0.
func MemberWidth(text string) int {
	for _, l := range strings.Split(text, "\n") {
		if isBlank(l) {
			continue
		}
		if w, n := leadWidth(l); w > 0 && !strings.HasPrefix(l[n:], "#") {
			return w
		}
	}
	return 0
}
