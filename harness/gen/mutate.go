package gen

import (
	"fmt"
	"strings"

	"verif/fw"
)

// Text mutators for near-miss inputs (C01). Each takes the text and a PRNG and returns a
// mutated text plus the mutator's name.

var keywordsPool = []string{"if", "else", "for", "for each", "loop", "while", "until", "alt", "one of", "return", "int", "string",
	"set of", "sequence of", "!type", "!table", "!enum", "!alias", "!union", "!view", "!wrap", "import", "as", "...", "..", "<:", "<-", "->", "-|>", "<->",
	".. * <- *", "@", "|", "~", "?", "::", "GET", "POST", "PATCH", "any", "bool", "decimal", "date", "datetime", "bytes", "float32", "int64"}

var sizeSpecs = []string{"(5)", "(5.2)", "(1..3)", "(0..)", "(3..)", "(99999999999999999999)", "(1.99999999999999999999)", "(18446744073709551616..2)", "(0)", "(00012)"}

var odditems = []string{"%", "%zz", "%2", "%G0", "%00", "%25", "%%41", "\t", "  ", "\r", "\"", "'", "[", "]", "{", "}", "(", ")", ":", "::", ",", "?", "&", "=", "#", "\\", "/", "<", ">", "$", "é", "\x00", "~"}

func splitLines(t string) []string { return strings.Split(t, "\n") }

func Mutate(text string, r *fw.Rand, other string) (string, string) {
	lines := splitLines(text)
	n := len(lines)
	pickLine := func() int { return r.Intn(n) }
	switch r.Intn(16) {
	case 0: // byte flip
		if len(text) == 0 {
			return text, "noop"
		}
		b := []byte(text)
		i := r.Intn(len(b))
		b[i] = byte(32 + r.Intn(95))
		return string(b), "byte-replace"
	case 1: // insert odd item
		i := r.Intn(len(text) + 1)
		return text[:i] + odditems[r.Intn(len(odditems))] + text[i:], "insert-odd"
	case 2: // delete span
		if len(text) < 2 {
			return text, "noop"
		}
		i := r.Intn(len(text) - 1)
		j := i + 1 + r.Intn(min(6, len(text)-i-1))
		return text[:i] + text[j:], "delete-span"
	case 3:
		i := pickLine()
		lines = append(lines[:i+1], append([]string{lines[i]}, lines[i+1:]...)...)
		return strings.Join(lines, "\n"), "line-duplicate"
	case 4:
		if n < 2 {
			return text, "noop"
		}
		i := pickLine()
		lines = append(lines[:i], lines[i+1:]...)
		return strings.Join(lines, "\n"), "line-remove"
	case 5:
		if n < 2 {
			return text, "noop"
		}
		i, j := pickLine(), pickLine()
		lines[i], lines[j] = lines[j], lines[i]
		return strings.Join(lines, "\n"), "line-swap"
	case 6: // splice a line from another file
		ol := splitLines(other)
		i := pickLine()
		ins := ol[r.Intn(len(ol))]
		lines = append(lines[:i], append([]string{ins}, lines[i:]...)...)
		return strings.Join(lines, "\n"), "line-splice"
	case 7: // indentation perturbation
		i := pickLine()
		t := strings.TrimLeft(lines[i], " \t")
		w := len(lines[i]) - len(t)
		nw := w + r.Range(-4, 4)
		if nw < 0 {
			nw = 0
		}
		lines[i] = strings.Repeat(" ", nw) + t
		return strings.Join(lines, "\n"), "indent-perturb"
	case 8: // digit inflation
		for try := 0; try < 10; try++ {
			i := pickLine()
			l := lines[i]
			for k := 0; k < len(l); k++ {
				if l[k] >= '0' && l[k] <= '9' {
					e := k
					for e < len(l) && l[e] >= '0' && l[e] <= '9' {
						e++
					}
					lines[i] = l[:k] + "98765432109876543210" + l[e:]
					return strings.Join(lines, "\n"), "digit-inflate"
				}
			}
		}
		return text, "noop"
	case 9: // size spec after a type-ish word
		for try := 0; try < 10; try++ {
			i := pickLine()
			if k := strings.Index(lines[i], "<: "); k >= 0 {
				rest := lines[i][k+3:]
				e := strings.IndexAny(rest, " ?[(\"")
				if e < 0 {
					e = len(rest)
				}
				lines[i] = lines[i][:k+3] + rest[:e] + sizeSpecs[r.Intn(len(sizeSpecs))] + rest[e:]
				return strings.Join(lines, "\n"), "size-spec-insert"
			}
		}
		return text, "noop"
	case 10: // keyword substitution of a word
		i := pickLine()
		ws := strings.Fields(lines[i])
		if len(ws) == 0 {
			return text, "noop"
		}
		w := ws[r.Intn(len(ws))]
		lines[i] = strings.Replace(lines[i], w, keywordsPool[r.Intn(len(keywordsPool))], 1)
		return strings.Join(lines, "\n"), "keyword-subst"
	case 11: // append decoration
		i := pickLine()
		lines[i] += []string{"?", " [~x]", " [a=\"b\"]", " \"doc\"", ":", " ...", " <: int", " (x <: int)", " ?a=int", " [", " ]", " @x = \"y\""}[r.Intn(12)]
		return strings.Join(lines, "\n"), "line-append"
	case 12: // truncate at line boundary
		i := pickLine()
		return strings.Join(lines[:i+1], "\n"), "truncate-line"
	case 13: // truncate mid-text
		if len(text) == 0 {
			return text, "noop"
		}
		return text[:r.Intn(len(text))], "truncate-mid"
	case 14: // escape corruption in a name
		for try := 0; try < 10; try++ {
			i := pickLine()
			t := strings.TrimLeft(lines[i], " ")
			if len(t) > 1 && (t[0] >= 'A' && t[0] <= 'z') {
				k := len(lines[i]) - len(t) + 1
				lines[i] = lines[i][:k] + []string{"%zz", "%", "%4", "%GG", "%20%", "%C3", "%FF%FE"}[r.Intn(7)] + lines[i][k:]
				return strings.Join(lines, "\n"), "escape-corrupt"
			}
		}
		return text, "noop"
	default: // block re-nesting: indent a span of lines one more level
		i := pickLine()
		j := min(n, i+r.Range(1, 4))
		for k := i; k < j; k++ {
			lines[k] = "    " + lines[k]
		}
		return strings.Join(lines, "\n"), "block-indent"
	}
}

func min(a, b int) int {
	if a < b {
		return a
	}
	return b
}

// OddProgram builds a syntactically plausible but unusual program from templates: a type
// expression is dropped into every position that takes one, with size and array specs on
// every primitive, huge digit strings, odd escapes, re-opened types that change kind,
// annotations around every member kind, docstrings inside nested REST blocks, etc.
func OddProgram(idx int, r *fw.Rand) (string, string) {
	natives := []string{"int", "int32", "int64", "float", "float32", "float64", "string", "bool", "date", "datetime", "decimal", "bytes", "any", "Other", "App2.Other", "Ns :: App2.Other", "Tab.id"}
	specs := append([]string{""}, sizeSpecs...)
	pos := idx % 20
	idx /= 20
	ty := natives[idx%len(natives)] + specs[(idx/len(natives))%len(specs)]
	wrap := []string{"%s", "set of %s", "sequence of %s", "%s?", "set of %s?", "sequence of %s [~x]"}[(idx/(len(natives)*len(specs)))%6]
	te := fmt.Sprintf(wrap, ty)
	var b strings.Builder
	b.WriteString("App2:\n    !type Other:\n        id <: int\nNs :: App2:\n    !type Other:\n        id <: int\n")
	b.WriteString("App [~a, k=\"v\"]:\n    !table Tab:\n        id <: int [~pk]\n    !type Other:\n        x <: int\n")
	name := ""
	switch pos {
	case 0:
		name = "field"
		fmt.Fprintf(&b, "    !type T:\n        f <: %s\n", te)
	case 1:
		name = "table-field"
		fmt.Fprintf(&b, "    !table T2:\n        f <: %s [~pk]\n", te)
	case 2:
		name = "param"
		fmt.Fprintf(&b, "    Ep (p <: %s):\n        return ok\n", te)
	case 3:
		name = "alias"
		fmt.Fprintf(&b, "    !alias A:\n        %s\n", te)
	case 4:
		name = "alias-inline"
		fmt.Fprintf(&b, "    !alias A: %s\n", te)
	case 5:
		name = "union"
		fmt.Fprintf(&b, "    !union U:\n        %s\n        string\n", te)
	case 6:
		name = "rest-param"
		fmt.Fprintf(&b, "    /p/{id <: %s}:\n        GET (q <: %s) ?a=%s:\n            | doc\n            return ok <: %s\n", strings.TrimSuffix(ty, "?"), te, strings.Fields(ty)[0], te)
	case 7:
		name = "list-field"
		fmt.Fprintf(&b, "    !type T:\n        f(1..3) <: %s\n", te)
	case 8:
		name = "inplace-tuple"
		fmt.Fprintf(&b, "    !type T:\n        f <:\n            g <: %s\n        h <: int\n", te)
	case 9:
		name = "view-param"
		fmt.Fprintf(&b, "    !view V(a <: %s) -> %s:\n        a -> (:\n            x = a\n        )\n", strings.TrimSuffix(te, "?"), strings.TrimSuffix(ty, "?"))
	case 10:
		name = "event-param"
		fmt.Fprintf(&b, "    <-> Ev (p <: %s): ...\n", te)
	case 11:
		name = "reopen-kind-change"
		fmt.Fprintf(&b, "    !type K:\n        a <: %s\n    !table K:\n        b <: int [~pk]\n    !enum K:\n        X: 1\n    !alias K:\n        %s\n    !union K:\n        int\n", te, te)
	case 12:
		name = "nested-doc-in-rest"
		fmt.Fprintf(&b, "    /q:\n        POST (b <: %s [~body]):\n            if x:\n                | nested doc\n                one of:\n                    a:\n                        | deeper\n                        return ok <: %s\n", te, te)
	case 14:
		// constructs judged only by the linter / post-processing (after the tree walk)
		name = "rest-call-to-simple-endpoint"
		fmt.Fprintf(&b, "    Plain (p <: %s):\n        ...\n    Caller:\n        App <- GET Plain\n        App <- POST /nowhere/{id}\n        App2 <- GET Missing\n        . <- PATCH Plain\n", te)
	case 15:
		name = "nested-untyped-transform"
		fmt.Fprintf(&b, "    !view V2(n <: %s) -> int:\n        n -> (:\n            out = n -> (:\n                x = 1\n            )\n            let y = n -> (z:\n                w = z\n            )\n        )\n", strings.TrimSuffix(te, "?"))
	case 16:
		name = "mixin-of-dotted-local-ref"
		fmt.Fprintf(&b, "    -|> Model\n    -|> Model2\nModel [~abstract]:\n    !type Address:\n        id <: %s\n    !type Person:\n        home <: Address.id\n        alt <: Tab.id\nModel2 [~abstract]:\n    -|> Model\n    -|> App\n    !table Person:\n        home <: Address.id [~pk]\n", te)
	case 17:
		name = "collector-forms"
		fmt.Fprintf(&b, "    Ep2 (p <: %s):\n        App2 <- Missing\n        one of:\n            a:\n                App <- Ep2\n    /r:\n        GET:\n            return ok\n    .. * <- *:\n        Ep2 [~x]\n        Nope [~y]\n        App <- Ep2 [~z]\n        GET /r [~w]\n        App2 <- App -> Evt [~v]\n", te)
	case 18:
		name = "pubsub-forms"
		fmt.Fprintf(&b, "    <-> Evt (p <: %s) [~e]: ...\n    App2 -> Ghost:\n        . <- Evt\n    Nobody :: Here -> Evt2: ...\nApp2:\n    App -> Evt:\n        App <- Evt\n    App -> Evt: ...\n", te)
	case 19:
		name = "facade-and-odd-members"
		fmt.Fprintf(&b, "    !wrap Model:\n        !table Tab\n        !type Other:\n            x [~a]\n    ...\n    Q \"long\" (App2.Other, r <: %s) [~t]: ...\n    !type Deep.Nested.Name:\n        f <: %s\n    !type Deep:\n        Nested <: Deep.Nested\n", te, te)
	default:
		name = "annotations-everywhere"
		fmt.Fprintf(&b, "    @a1 = \"v\"\n    !type T:\n        @a2 = [\"x\", [\"y\"]]\n        f <: %s:\n            @a3 =:\n                | multi\n    @a4 = \"w\"\n    !alias A2:\n        @a5 = \"z\"\n        %s\n    @a6 = \"after alias\"\n    !enum E:\n        @a7 = \"e\"\n        X: 99999999999999999999\n    @a8 = \"after enum\"\n    !union U2:\n        @a9 = \"u\"\n        %s\n    @a10 = \"after union\"\n", te, te, strings.TrimSuffix(te, "?"))
	}
	return b.String(), name + ":" + te
}
