// Package corpus gives the monitors the repository's own .sysl files as a realistic
// workload: each file is compiled from an in-memory copy of its directory tree so that
// transformed variants keep their relative imports.
package corpus

import (
	"os"
	"path/filepath"
	"sort"
	"strings"
	"sync"

	"github.com/anz-bank/sysl/pkg/parse"
	"github.com/anz-bank/sysl/pkg/sysl"
	"github.com/spf13/afero"

	"verif/fw"
)

var (
	once  sync.Once
	files []string
)

// Files lists every .sysl file of the repository (relative to the repo root), sorted.
func Files() []string {
	once.Do(func() {
		root := fw.RepoDir()
		_ = filepath.Walk(root, func(p string, fi os.FileInfo, err error) error {
			if err != nil {
				return nil
			}
			if fi.IsDir() {
				n := fi.Name()
				if n == ".git" || n == "node_modules" || n == ".work" {
					return filepath.SkipDir
				}
				return nil
			}
			if strings.HasSuffix(p, ".sysl") && fi.Size() < 400<<10 {
				rel, _ := filepath.Rel(root, p)
				files = append(files, rel)
			}
			return nil
		})
		sort.Strings(files)
	})
	return files
}

// Tree is an in-memory copy of a directory tree (text-like files only).
type Tree struct {
	Root  string            // absolute directory copied
	Files map[string]string // path relative to Root -> content
}

var textExt = map[string]bool{".sysl": true, ".yaml": true, ".yml": true, ".json": true, ".pb": true, ".textpb": true,
	".proto": true, ".xsd": true, ".sql": true, ".arrai": true, ".xml": true, ".avsc": true}

func LoadTree(dir string) *Tree {
	t := &Tree{Root: dir, Files: map[string]string{}}
	total := 0
	_ = filepath.Walk(dir, func(p string, fi os.FileInfo, err error) error {
		if err != nil {
			return nil
		}
		if fi.IsDir() {
			if fi.Name() == ".git" || fi.Name() == "node_modules" {
				return filepath.SkipDir
			}
			return nil
		}
		if !textExt[filepath.Ext(p)] || fi.Size() > 2<<20 || total > 64<<20 {
			return nil
		}
		b, err := os.ReadFile(p)
		if err != nil {
			return nil
		}
		rel, _ := filepath.Rel(dir, p)
		t.Files[rel] = string(b)
		total += len(b)
		return nil
	})
	return t
}

func (t *Tree) Fs() afero.Fs {
	fs := afero.NewMemMapFs()
	for n, c := range t.Files {
		_ = afero.WriteFile(fs, n, []byte(c), 0o644)
	}
	return fs
}

// MapSysl returns a copy of the tree with f applied to every .sysl file.
func (t *Tree) MapSysl(f func(name, content string) string) *Tree {
	out := &Tree{Root: t.Root, Files: map[string]string{}}
	for n, c := range t.Files {
		if strings.HasSuffix(n, ".sysl") {
			out.Files[n] = f(n, c)
		} else {
			out.Files[n] = c
		}
	}
	return out
}

// Compile parses file (relative to the tree root) with the real parser.
func (t *Tree) Compile(file string) (m *sysl.Module, err error, pi *fw.PanicInfo) {
	pi = fw.Guard(func() { m, err = parse.NewParser().ParseFromFs(file, t.Fs()) })
	return
}

// Locate finds, for a corpus file (relative to the repo root), the directory to use as
// project root: the nearest of its directory, parent, grandparent from which the file
// compiles; if none compiles the file's own directory is used.
func Locate(rel string) (tree *Tree, file string, compiles bool) {
	abs := filepath.Join(fw.RepoDir(), rel)
	dir := filepath.Dir(abs)
	var first *Tree
	var firstFile string
	for up := 0; up < 3; up++ {
		if dir == fw.RepoDir() || len(dir) < len(fw.RepoDir()) {
			break
		}
		t := LoadTree(dir)
		f, _ := filepath.Rel(dir, abs)
		if first == nil {
			first, firstFile = t, f
		}
		if m, err, pi := t.Compile(f); err == nil && pi == nil && m != nil {
			return t, f, true
		}
		dir = filepath.Dir(dir)
	}
	if first == nil {
		first = LoadTree(filepath.Dir(abs))
		firstFile = filepath.Base(abs)
	}
	return first, firstFile, false
}
