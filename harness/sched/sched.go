// Package sched is the schedule controller for the concurrent import retrieval
// (pkg/parse collectSpecs): with the `verif` hooks it parks every collectSpecs
// invocation at its entry and every file read inside a gated reader.Reader, detects
// quiescence by counting hook events (logical time, no sleeps) and releases one parked
// party at a time, so that the harness decides claim order and read-completion order.
package sched

import (
	"context"
	"fmt"
	"sort"
	"strings"
	"sync"
	"time"

	"github.com/anz-bank/golden-retriever/retriever"
	"github.com/anz-bank/sysl/pkg/parse"
	"github.com/anz-bank/sysl/pkg/sysl"
	"github.com/spf13/afero"
)

// Event is one entry of the recorded history.
type Event struct {
	Seq   int
	Kind  string // hook kinds (enter cut lost won spawn wait return flat begin end) + read-begin read-end release
	ID    string // invocation path id ("" for reader events)
	File  string
	Depth int
	N     int
}

type inv struct {
	tok      uint64
	id       string
	file     string
	depth    int
	parent   *inv
	state    string // parked running waiting returned
	children int    // announced by spawn
	left     int    // children not yet returned
	nkids    map[string]int
	ch       chan struct{}
}

type readPark struct {
	file string
	ch   chan struct{}
}

// Fault makes a read fail or return different content.
type Fault struct {
	Err     error  // non-nil: the read fails with this error
	Content []byte // used when Err == nil and Replace is true
	Replace bool
}

// Chooser picks the index of the party to release among n sorted options.
type Chooser func(step int, options []string) int

type Controller struct {
	mu       sync.Mutex
	cond     *sync.Cond
	byTok    map[uint64]*inv
	parked   []*inv
	reads    []*readPark
	running  int
	pending  int
	rootRet  bool
	Events   []Event
	Choices  []int // index taken at each decision point
	Widths   []int // number of options at each decision point
	Released []string
	files    map[string][]byte
	faults   map[string]Fault
	Reads    map[string]int // ReadHashBranch calls per path as requested
	Free     bool           // free-running: observe only, park nothing
	afero.Fs
}

func NewController(files map[string]string, faults map[string]Fault) *Controller {
	c := &Controller{byTok: map[uint64]*inv{}, files: map[string][]byte{}, faults: faults, Reads: map[string]int{}}
	c.cond = sync.NewCond(&c.mu)
	fs := afero.NewMemMapFs()
	for n, s := range files {
		c.files[clean(n)] = []byte(s)
		_ = afero.WriteFile(fs, n, []byte(s), 0o644)
	}
	c.Fs = fs
	return c
}

func clean(p string) string {
	p = strings.TrimPrefix(p, "./")
	return strings.TrimPrefix(p, "/")
}

func (c *Controller) log(kind, id, file string, depth, n int) {
	c.Events = append(c.Events, Event{Seq: len(c.Events), Kind: kind, ID: id, File: file, Depth: depth, N: n})
}

// Hook is installed as parse.VerifHook.
func (c *Controller) Hook(ev parse.VerifEvent) {
	c.mu.Lock()
	switch ev.Kind {
	case "enter":
		i := &inv{tok: ev.Token, file: ev.File, depth: ev.Depth, state: "parked", ch: make(chan struct{}), nkids: map[string]int{}}
		if p := c.byTok[uint64(ev.N)]; p != nil {
			i.parent = p
			k := p.nkids[ev.File]
			p.nkids[ev.File]++
			i.id = p.id + "/" + ev.File
			if k > 0 {
				i.id += fmt.Sprintf("#%d", k)
			}
			c.pending--
		} else {
			i.id = ev.File
		}
		c.byTok[ev.Token] = i
		c.log("enter", i.id, ev.File, ev.Depth, 0)
		if c.Free {
			i.state = "running"
			c.running++
			c.mu.Unlock()
			return
		}
		c.parked = append(c.parked, i)
		c.cond.Broadcast()
		c.mu.Unlock()
		<-i.ch // released by the controller (which already counted it as running)
		return
	case "spawn":
		if i := c.byTok[ev.Token]; i != nil {
			i.children, i.left = ev.N, ev.N
			c.pending += ev.N
			c.log("spawn", i.id, i.file, i.depth, ev.N)
		}
	case "wait":
		if i := c.byTok[ev.Token]; i != nil {
			c.log("wait", i.id, i.file, i.depth, ev.N)
			if i.left > 0 {
				i.state = "waiting"
				c.running--
			}
		}
	case "return":
		if i := c.byTok[ev.Token]; i != nil {
			c.log("return", i.id, i.file, i.depth, 0)
			if i.state == "running" {
				c.running--
			}
			i.state = "returned"
			if p := i.parent; p != nil {
				p.left--
				if p.left == 0 && p.state == "waiting" {
					p.state = "running"
					c.running++
				}
			} else {
				c.rootRet = true
			}
		}
	default:
		id := ""
		if i := c.byTok[ev.Token]; i != nil {
			id = i.id
		}
		c.log(ev.Kind, id, ev.File, ev.Depth, ev.N)
	}
	c.cond.Broadcast()
	c.mu.Unlock()
}

// ReadHashBranch parks the calling invocation until the controller releases the read.
func (c *Controller) ReadHashBranch(_ context.Context, path string) ([]byte, retriever.Hash, string, error) {
	c.mu.Lock()
	c.Reads[path]++
	if c.Free {
		c.log("read-begin", "", path, 0, 0)
		c.log("read-end", "", path, 0, 0)
		b, ok := c.files[clean(path)]
		c.mu.Unlock()
		if f, isf := c.faults[clean(path)]; isf {
			if f.Err != nil {
				return nil, retriever.ZeroHash, "", f.Err
			}
			if f.Replace {
				return f.Content, retriever.ZeroHash, "", nil
			}
		}
		if !ok {
			return nil, retriever.ZeroHash, "", fmt.Errorf("open %s: file does not exist", path)
		}
		return b, retriever.ZeroHash, "", nil
	}
	rp := &readPark{file: path, ch: make(chan struct{})}
	c.reads = append(c.reads, rp)
	c.log("read-begin", "", path, 0, 0)
	c.running--
	c.cond.Broadcast()
	c.mu.Unlock()
	<-rp.ch
	c.mu.Lock()
	defer c.mu.Unlock()
	c.log("read-end", "", path, 0, 0)
	if f, ok := c.faults[clean(path)]; ok {
		if f.Err != nil {
			return nil, retriever.ZeroHash, "", f.Err
		}
		if f.Replace {
			return f.Content, retriever.ZeroHash, "", nil
		}
	}
	b, ok := c.files[clean(path)]
	if !ok {
		return nil, retriever.ZeroHash, "", fmt.Errorf("open %s: file does not exist", path)
	}
	return b, retriever.ZeroHash, "", nil
}

func (c *Controller) Read(ctx context.Context, p string) ([]byte, error) {
	b, _, _, err := c.ReadHashBranch(ctx, p)
	return b, err
}

func (c *Controller) ReadHash(ctx context.Context, p string) ([]byte, retriever.Hash, error) {
	b, h, _, err := c.ReadHashBranch(ctx, p)
	return b, h, err
}

// Outcome of one controlled execution.
type Outcome struct {
	Module   *sysl.Module
	Err      error
	Stuck    string // non-empty: the controller could not make progress (inconclusive / violation)
	Panic    string
	Timeout  bool
	Unjoined []string // invocations not returned when Parse ended collecting
}

// Run executes p.Parse(root, controller) under the chooser. The hook variables of
// pkg/parse are global: one controlled execution at a time per process.
func (c *Controller) Run(p *parse.Parser, root string, choose Chooser, watchdog time.Duration) Outcome {
	parse.VerifHook = c.Hook
	defer func() { parse.VerifHook = nil }()
	var out Outcome
	done := make(chan struct{})
	go func() {
		defer close(done)
		defer func() {
			if r := recover(); r != nil {
				out.Panic = fmt.Sprint(r)
			}
			c.mu.Lock()
			c.rootRet = true
			c.cond.Broadcast()
			c.mu.Unlock()
		}()
		out.Module, out.Err = p.Parse(root, c)
	}()
	// wake the waiter periodically so that a watchdog can fire (never a verdict by itself)
	stop := make(chan struct{})
	timedOut := false
	go func() {
		t := time.NewTimer(watchdog)
		defer t.Stop()
		select {
		case <-t.C:
			c.mu.Lock()
			timedOut = true
			c.cond.Broadcast()
			c.mu.Unlock()
		case <-stop:
		}
	}()
	step := 0
	c.mu.Lock()
	for {
		for !(c.rootRet || timedOut || (c.running == 0 && c.pending == 0 && (len(c.parked) > 0 || len(c.reads) > 0))) {
			if c.running == 0 && c.pending == 0 && len(c.parked) == 0 && len(c.reads) == 0 && len(c.byTok) > 0 && !c.rootRet {
				// nobody runs, nobody is parked, root has not returned: accounting broke or the code deadlocked
				break
			}
			c.cond.Wait()
		}
		if c.rootRet || timedOut {
			break
		}
		if len(c.parked) == 0 && len(c.reads) == 0 {
			out.Stuck = "no party is running or parked but the root invocation has not returned"
			break
		}
		type opt struct {
			key string
			i   *inv
			r   *readPark
		}
		var opts []opt
		for _, i := range c.parked {
			opts = append(opts, opt{key: "E:" + i.id, i: i})
		}
		for _, r := range c.reads {
			opts = append(opts, opt{key: "R:" + r.file, r: r})
		}
		sort.SliceStable(opts, func(a, b int) bool { return opts[a].key < opts[b].key })
		keys := make([]string, len(opts))
		for k := range opts {
			keys[k] = opts[k].key
		}
		pick := choose(step, keys)
		if pick < 0 || pick >= len(opts) {
			pick = 0
		}
		c.Choices = append(c.Choices, pick)
		c.Widths = append(c.Widths, len(opts))
		step++
		o := opts[pick]
		c.Released = append(c.Released, o.key)
		c.log("release", o.key, "", 0, 0)
		c.running++
		if o.i != nil {
			o.i.state = "running"
			for k, x := range c.parked {
				if x == o.i {
					c.parked = append(c.parked[:k], c.parked[k+1:]...)
					break
				}
			}
			close(o.i.ch)
		} else {
			for k, x := range c.reads {
				if x == o.r {
					c.reads = append(c.reads[:k], c.reads[k+1:]...)
					break
				}
			}
			close(o.r.ch)
		}
	}
	// release everything still parked so that goroutines can finish (error paths)
	if timedOut {
		out.Timeout = true
	}
	drain := func() {
		for _, i := range c.parked {
			close(i.ch)
		}
		c.parked = nil
		for _, r := range c.reads {
			close(r.ch)
		}
		c.reads = nil
	}
	drain()
	c.mu.Unlock()
	close(stop)
	// after the root returned, late parties (there should be none) are released at once
	fin := time.NewTimer(watchdog)
	defer fin.Stop()
	tick := time.NewTicker(5 * time.Millisecond)
	defer tick.Stop()
wait:
	for {
		select {
		case <-done:
			break wait
		case <-tick.C:
			c.mu.Lock()
			drain()
			c.mu.Unlock()
		case <-fin.C:
			out.Timeout = true
			break wait
		}
	}
	c.mu.Lock()
	endSeen := false
	for _, e := range c.Events {
		if e.Kind == "end" {
			endSeen = true
		}
	}
	if endSeen {
		for _, i := range c.byTok {
			if i.state != "returned" {
				out.Unjoined = append(out.Unjoined, i.id+":"+i.state)
			}
		}
		sort.Strings(out.Unjoined)
	}
	c.mu.Unlock()
	return out
}

// FlatOrder returns the processed-file order reported by the "flat" events.
func (c *Controller) FlatOrder() []string {
	var out []string
	for _, e := range c.Events {
		if e.Kind == "flat" {
			out = append(out, e.File)
		}
	}
	return out
}

// Count returns how many events of a kind concern a file.
func (c *Controller) Count(kind string) map[string]int {
	out := map[string]int{}
	for _, e := range c.Events {
		if e.Kind == kind {
			out[clean(e.File)]++
		}
	}
	return out
}

// WonDepth returns the depth at which each file was claimed.
func (c *Controller) WonDepth() map[string]int {
	out := map[string]int{}
	for _, e := range c.Events {
		if e.Kind == "won" {
			out[clean(e.File)] = e.Depth
		}
	}
	return out
}

// Signature of an interleaving: the release sequence.
func (c *Controller) Signature() string { return strings.Join(c.Released, " ") }
