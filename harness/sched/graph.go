package sched

import (
	"fmt"
	"path"
	"strings"

	"verif/fw"
)

// Graph is an import graph over files; node 0 is the root.
type Graph struct {
	Names []string // canonical path of each file (relative to the project root)
	Edges [][]int  // Edges[i] = import targets of file i, in textual order
	Spell [][]string
	Kind  []string // per file: "" (sysl), "yaml" (OpenAPI 2 leaf), "pbjson" (compiled-model leaf)
}

// AddForeignLeaf appends a foreign-format leaf file imported by file `from`.
func (g *Graph) AddForeignLeaf(from int, kind string) int {
	k := len(g.Names)
	for len(g.Kind) < k {
		g.Kind = append(g.Kind, "")
	}
	switch kind {
	case "yaml":
		g.Names = append(g.Names, fmt.Sprintf("leaf%d.yaml", k))
		g.Spell[from] = append(g.Spell[from], fmt.Sprintf("leaf%d.yaml as Foreign :: Leaf%d", k, k))
	default:
		g.Names = append(g.Names, fmt.Sprintf("model%d.pb.json", k))
		g.Spell[from] = append(g.Spell[from], fmt.Sprintf("model%d.pb.json", k))
	}
	if d := path.Dir(g.Names[from]); d != "." {
		// spelled root-relative so that the directory of the importer does not matter
		g.Spell[from][len(g.Spell[from])-1] = "/" + g.Spell[from][len(g.Spell[from])-1]
	}
	g.Kind = append(g.Kind, kind)
	g.Edges[from] = append(g.Edges[from], k)
	g.Edges = append(g.Edges, nil)
	g.Spell = append(g.Spell, nil)
	return k
}

func (g *Graph) kind(i int) string {
	if i < len(g.Kind) {
		return g.Kind[i]
	}
	return ""
}

var nodeNames = []string{"root.sysl", "a.sysl", "sub/b.sysl", "sub/deep/c.sysl", "d.sysl", "sub/e.sysl", "other/f.sysl", "g.sysl", "sub/deep/h.sysl"}

// FromBits builds the digraph on n nodes whose adjacency matrix is the low n*n bits of
// code (row-major, self loops included); import order within a file follows perm.
func FromBits(n int, code uint64, r *fw.Rand) *Graph {
	g := &Graph{Names: append([]string{}, nodeNames[:n]...), Edges: make([][]int, n), Spell: make([][]string, n)}
	for i := 0; i < n; i++ {
		var ts []int
		for j := 0; j < n; j++ {
			if code>>(uint(i*n+j))&1 == 1 {
				ts = append(ts, j)
			}
		}
		p := r.Perm(len(ts))
		for _, k := range p {
			g.Edges[i] = append(g.Edges[i], ts[k])
			g.Spell[i] = append(g.Spell[i], Spelling(r, g.Names[i], g.Names[ts[k]]))
		}
	}
	return g
}

// Random builds a random graph on n nodes with about deg imports per file.
func Random(n int, r *fw.Rand) *Graph {
	g := &Graph{Names: append([]string{}, nodeNames[:n]...), Edges: make([][]int, n), Spell: make([][]string, n)}
	for i := 0; i < n; i++ {
		k := r.Intn(4)
		seen := map[int]bool{}
		for ; k > 0; k-- {
			j := r.Intn(n)
			if seen[j] {
				continue
			}
			seen[j] = true
			g.Edges[i] = append(g.Edges[i], j)
			g.Spell[i] = append(g.Spell[i], Spelling(r, g.Names[i], g.Names[j]))
		}
	}
	return g
}

// Fan builds the shape of a project's main file: the root imports many files directly
// (5..6), which in turn share one or two files below them.
func Fan(r *fw.Rand) *Graph {
	kids := r.Range(5, 6)
	below := r.Range(1, 2)
	n := 1 + kids + below
	g := &Graph{Names: append([]string{}, nodeNames[:n]...), Edges: make([][]int, n), Spell: make([][]string, n)}
	add := func(from, to int) {
		g.Edges[from] = append(g.Edges[from], to)
		g.Spell[from] = append(g.Spell[from], Spelling(r, g.Names[from], g.Names[to]))
	}
	for _, k := range r.Perm(kids) {
		add(0, 1+k)
	}
	for k := 1; k <= kids; k++ {
		for b := 0; b < below; b++ {
			if r.Chance(1, 3) {
				add(k, 1+kids+b)
			}
		}
	}
	if r.Chance(1, 4) {
		add(1+kids, 0) // back to the root
	}
	return g
}

// DepthRace builds a graph in which a file X is reachable from the root through a short
// and a long path and has a tail of imports below it, and returns depth limits that cut part of
// the tail when measured along the long path but not along the short one: the shapes for which
// "exactly the files nearer than n" depends on which path reaches X first.
func DepthRace(r *fw.Rand) (*Graph, []int) {
	short := r.Range(1, 2) // distance of X along the short path
	long := short + r.Range(1, 3)
	tail := r.Range(1, 3)
	n := 1 + (short - 1) + (long - 1) + 1 + tail
	for n > len(nodeNames) {
		tail--
		n--
	}
	// shuffle which file name plays which role (directories differ), root stays first
	perm := append([]int{0}, func() []int {
		p := r.Perm(n - 1)
		for i := range p {
			p[i]++
		}
		return p
	}()...)
	g := &Graph{Names: append([]string{}, nodeNames[:n]...), Edges: make([][]int, n), Spell: make([][]string, n)}
	next := 1
	role := func() int { k := perm[next]; next++; return k }
	x := role()
	add := func(from, to int) {
		g.Edges[from] = append(g.Edges[from], to)
		g.Spell[from] = append(g.Spell[from], Spelling(r, g.Names[from], g.Names[to]))
	}
	path := func(length int) [][2]int {
		var es [][2]int
		cur := 0
		for k := 1; k < length; k++ {
			m := role()
			es = append(es, [2]int{cur, m})
			cur = m
		}
		return append(es, [2]int{cur, x})
	}
	se, le := path(short), path(long)
	// the two paths leave the root in either textual order
	first, second := se, le
	if r.Chance(1, 2) {
		first, second = le, se
	}
	add(first[0][0], first[0][1])
	add(second[0][0], second[0][1])
	for _, e := range append(append([][2]int{}, first[1:]...), second[1:]...) {
		add(e[0], e[1])
	}
	cur := x
	for k := 0; k < tail; k++ {
		m := role()
		add(cur, m)
		cur = m
	}
	// sometimes the tail loops back or a chain file also imports a tail file
	if r.Chance(1, 3) {
		add(cur, perm[r.Intn(n)])
	}
	// limits n with short+k < n <= long+k for some tail file k=1..tail
	seen := map[int]bool{}
	var limits []int
	for k := 1; k <= tail; k++ {
		for l := short + k + 1; l <= long+k; l++ {
			if !seen[l] {
				seen[l] = true
				limits = append(limits, l)
			}
		}
	}
	return g, limits
}

// Spelling writes target as an import path seen from file `from`: relative (with ../ or
// a detour through a sibling directory), ./-prefixed or root-relative; extension optional.
func Spelling(r *fw.Rand, from, to string) string {
	var sp string
	fd := path.Dir(from)
	switch r.Intn(4) {
	case 0:
		sp = "/" + to
	default:
		if fd == "." {
			sp = to
		} else if strings.HasPrefix(to, fd+"/") {
			sp = strings.TrimPrefix(to, fd+"/")
		} else {
			sp = strings.Repeat("../", strings.Count(fd, "/")+1) + to
		}
		switch r.Intn(5) {
		case 0:
			if !strings.HasPrefix(sp, "../") {
				sp = "./" + sp
			}
		case 1:
			// detour: x/../ in front of a relative spelling keeps the same file
			if !strings.HasPrefix(sp, "../") {
				sp = "zz/../" + sp
			}
		}
	}
	if r.Chance(1, 2) {
		sp = strings.TrimSuffix(sp, ".sysl")
	}
	return sp
}

// Marker is the application name a file declares on its own.
func Marker(i int) string { return fmt.Sprintf("File%d", i) }

// Render writes the files: imports, a marker application and a block of the shared one.
func (g *Graph) Render() map[string]string {
	out := map[string]string{}
	for i, n := range g.Names {
		var b strings.Builder
		switch g.kind(i) {
		case "yaml":
			out[n] = fmt.Sprintf("swagger: \"2.0\"\ninfo:\n  title: Leaf%d\n  version: \"1\"\npaths: {}\ndefinitions:\n  Thing%d:\n    type: object\n    properties:\n      id:\n        type: string\n", i, i)
			continue
		case "pbjson":
			out[n] = fmt.Sprintf("{\"apps\": {\"FromJson%d\": {\"name\": {\"part\": [\"FromJson%d\"]}}}}\n", i, i)
			continue
		}
		for _, sp := range g.Spell[i] {
			b.WriteString("import " + sp + "\n")
		}
		fmt.Fprintf(&b, "%s:\n    !type T%d:\n        x <: int\n    Ep%d:\n        Shared <- Op%d\n", Marker(i), i, i, i)
		fmt.Fprintf(&b, "Shared:\n    !type S%d:\n        y <: string\n    Op%d: ...\n", i, i)
		out[n] = b.String()
	}
	return out
}

// Dist returns the breadth-first distance of every file from the root (-1 = unreachable).
func (g *Graph) Dist() []int {
	d := make([]int, len(g.Names))
	for i := range d {
		d[i] = -1
	}
	d[0] = 0
	q := []int{0}
	for len(q) > 0 {
		x := q[0]
		q = q[1:]
		for _, y := range g.Edges[x] {
			if d[y] < 0 {
				d[y] = d[x] + 1
				q = append(q, y)
			}
		}
	}
	return d
}

// Closure is the reference: the files included under depth limit n (0 = none) and the
// order in which they are processed (depth-first pre-order in textual import order).
func (g *Graph) Closure(limit int) (included []bool, order []int) {
	d := g.Dist()
	included = make([]bool, len(g.Names))
	for i := range d {
		included[i] = d[i] >= 0 && (limit <= 0 || d[i] < limit)
	}
	seen := make([]bool, len(g.Names))
	var visit func(i int)
	visit = func(i int) {
		if seen[i] || !included[i] {
			return
		}
		seen[i] = true
		order = append(order, i)
		for _, j := range g.Edges[i] {
			visit(j)
		}
	}
	visit(0)
	return
}

func (g *Graph) String() string {
	var b strings.Builder
	for i := range g.Names {
		fmt.Fprintf(&b, "%s ->", g.Names[i])
		for k, j := range g.Edges[i] {
			fmt.Fprintf(&b, " %s(as %q)", g.Names[j], g.Spell[i][k])
		}
		b.WriteString("; ")
	}
	return b.String()
}

// Shapes classifies the graph for the evidence.
func (g *Graph) Shapes() []string {
	var out []string
	n := len(g.Names)
	indeg := make([]int, n)
	for i := range g.Edges {
		for _, j := range g.Edges[i] {
			indeg[j]++
			if i == j {
				out = append(out, "self-loop")
			}
			for _, k := range g.Edges[j] {
				if k == i && i != j {
					out = append(out, "2-cycle")
				}
			}
		}
	}
	d := g.Dist()
	for j := range indeg {
		if indeg[j] >= 2 && d[j] > 0 {
			out = append(out, "diamond-or-fan-in")
		}
	}
	return out
}
