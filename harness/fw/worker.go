package fw

import (
	"bufio"
	"encoding/json"
	"fmt"
	"os"
	"path/filepath"
	"runtime/pprof"
	"strconv"
	"strings"
	"sync"
	"sync/atomic"
	"time"
)

// journal record
type jrec struct {
	T string  `json:"t"` // B(egin) E(nd) D(one) T(imeout)
	I int     `json:"i"`
	R *Result `json:"r,omitempty"`
	S float64 `json:"s,omitempty"` // seconds
}

type WorkerArgs struct {
	Prop, Tier      string
	Seed            uint64
	Start, Step, End int
	Journal, Scratch string
	Timeout          int
	KeepSamples      int
	Replay           bool
	MaxRSSMB         int
}

const ExitWatchdog = 97
const ExitMemory = 98

func rssMB() int64 {
	b, err := os.ReadFile("/proc/self/statm")
	if err != nil {
		return 0
	}
	f := strings.Fields(string(b))
	if len(f) < 2 {
		return 0
	}
	pages, _ := strconv.ParseInt(f[1], 10, 64)
	return pages * int64(os.Getpagesize()) >> 20
}

// RunWorker executes cases Start, Start+Step, ... < End and journals each.
func RunWorker(a WorkerArgs) int {
	p := Lookup(a.Prop)
	if p == nil {
		fmt.Fprintf(os.Stderr, "unknown property %s\n", a.Prop)
		return 2
	}
	jf, err := os.OpenFile(a.Journal, os.O_APPEND|os.O_CREATE|os.O_WRONLY, 0o644)
	if err != nil {
		fmt.Fprintln(os.Stderr, err)
		return 2
	}
	defer jf.Close()
	var jmu sync.Mutex
	w := bufio.NewWriter(jf)
	put := func(r jrec) {
		jmu.Lock()
		defer jmu.Unlock()
		b, _ := json.Marshal(r)
		w.Write(b)
		w.WriteByte('\n')
		w.Flush()
	}
	timeout := a.Timeout
	if timeout <= 0 {
		timeout = 60
	}
	// memory watchdog: a case that drives the process beyond the RSS bound is stopped and
	// reported (unbounded recursion/allocation would otherwise take the machine down)
	var curCase int64 = -1
	go func() {
		limit := int64(a.MaxRSSMB)
		if limit <= 0 {
			limit = 4096
		}
		for {
			time.Sleep(250 * time.Millisecond)
			if rss := rssMB(); rss > limit {
				c := int(atomic.LoadInt64(&curCase))
				put(jrec{T: "M", I: c})
				fmt.Fprintf(os.Stderr, "\nfatal error: MEMORY WATCHDOG case %d: resident set %d MiB exceeds %d MiB\n", c, rss, limit)
				_ = pprof.Lookup("goroutine").WriteTo(os.Stderr, 1)
				os.Exit(ExitMemory)
			}
		}
	}()
	kept := 0
	for i := a.Start; i < a.End; i += a.Step {
		dir := filepath.Join(a.Scratch, fmt.Sprintf("case-%d", i))
		_ = os.MkdirAll(dir, 0o755)
		put(jrec{T: "B", I: i})
		atomic.StoreInt64(&curCase, int64(i))
		t0 := time.Now()
		ci := i
		timer := time.AfterFunc(time.Duration(timeout)*time.Second, func() {
			put(jrec{T: "T", I: ci})
			fmt.Fprintf(os.Stderr, "\nWATCHDOG case %d exceeded %ds; goroutine dump follows\n", ci, timeout)
			_ = pprof.Lookup("goroutine").WriteTo(os.Stderr, 2)
			os.Exit(ExitWatchdog)
		})
		ctx := &Ctx{Prop: a.Prop, Seed: a.Seed, Tier: a.Tier, Case: i, Dir: dir,
			BinDir: BinDir(), Repo: RepoDir(), Verif: VerifDir(), Replay: a.Replay}
		res := p.Run(ctx, i)
		timer.Stop()
		if res.Verdict == "" {
			res.Verdict = "ok"
		}
		if res.Verdict != "violation" {
			if kept >= a.KeepSamples {
				res.Sample = nil
			} else if res.Sample != nil && res.NonTrivial {
				kept++
			} else {
				res.Sample = nil
			}
		}
		put(jrec{T: "E", I: i, R: &res, S: time.Since(t0).Seconds()})
		_ = os.RemoveAll(dir)
	}
	put(jrec{T: "D"})
	return 0
}

func VerifDir() string {
	if v := os.Getenv("VERIF_DIR"); v != "" {
		return v
	}
	return "/verif"
}
func RepoDir() string {
	if v := os.Getenv("VERIF_REPO"); v != "" {
		return v
	}
	return "/repo"
}
func BinDir() string { return filepath.Join(VerifDir(), "bin") }
