package fw

// Rand is a small deterministic PRNG (splitmix64 seeding an xorshift*), so that every
// case is a pure function of (VERIF_SEED, case number).
type Rand struct{ s uint64 }

func splitmix(x *uint64) uint64 {
	*x += 0x9e3779b97f4a7c15
	z := *x
	z = (z ^ (z >> 30)) * 0xbf58476d1ce4e5b9
	z = (z ^ (z >> 27)) * 0x94d049bb133111eb
	return z ^ (z >> 31)
}

func NewRand(seed, stream uint64) *Rand {
	x := seed*0x100000001b3 ^ (stream+1)*0x9e3779b97f4a7c15
	r := &Rand{s: splitmix(&x)}
	if r.s == 0 {
		r.s = 1
	}
	return r
}

func (r *Rand) U64() uint64 {
	r.s ^= r.s >> 12
	r.s ^= r.s << 25
	r.s ^= r.s >> 27
	return r.s * 2685821657736338717
}

// Intn returns 0..n-1 (n>0).
func (r *Rand) Intn(n int) int {
	if n <= 1 {
		return 0
	}
	return int(r.U64() % uint64(n))
}

// Range returns lo..hi inclusive.
func (r *Rand) Range(lo, hi int) int { return lo + r.Intn(hi-lo+1) }

// Chance returns true with probability num/den.
func (r *Rand) Chance(num, den int) bool { return r.Intn(den) < num }

func (r *Rand) Pick(xs []string) string { return xs[r.Intn(len(xs))] }

func (r *Rand) Perm(n int) []int {
	p := make([]int, n)
	for i := range p {
		p[i] = i
	}
	for i := n - 1; i > 0; i-- {
		j := r.Intn(i + 1)
		p[i], p[j] = p[j], p[i]
	}
	return p
}

// Fork derives an independent stream.
func (r *Rand) Fork() *Rand { return NewRand(r.U64(), r.U64()) }
