package fw

import (
	"bufio"
	"encoding/json"
	"fmt"
	"os"
	"os/exec"
	"path/filepath"
	"regexp"
	"runtime"
	"sort"
	"strconv"
	"strings"
	"sync"
	"syscall"
	"time"
)

type Finding struct {
	Status     string `json:"status"` // known | fixed
	Property   string `json:"property"`
	Sig        string `json:"sig,omitempty"`
	SigPrefix  string `json:"sig_prefix,omitempty"`
	What       string `json:"what"`
	Commit     string `json:"commit,omitempty"`
	Reproducer string `json:"reproducer,omitempty"`
}

func LoadFindings() []Finding {
	f, err := os.Open(filepath.Join(VerifDir(), "known_findings.jsonl"))
	if err != nil {
		return nil
	}
	defer f.Close()
	var out []Finding
	sc := bufio.NewScanner(f)
	sc.Buffer(make([]byte, 1<<20), 1<<20)
	for sc.Scan() {
		line := strings.TrimSpace(sc.Text())
		if line == "" || strings.HasPrefix(line, "#") {
			continue
		}
		var x Finding
		if json.Unmarshal([]byte(line), &x) == nil {
			out = append(out, x)
		}
	}
	return out
}

func matchFinding(fs []Finding, prop, sig string) *Finding {
	for i := range fs {
		f := &fs[i]
		if f.Status != "known" || f.Property != prop {
			continue
		}
		if f.Sig != "" && f.Sig == sig {
			return f
		}
		if f.SigPrefix != "" && strings.HasPrefix(sig, f.SigPrefix) {
			return f
		}
	}
	return nil
}

type caseOutcome struct {
	I   int
	R   Result
	Sec float64
}

type DriverArgs struct {
	Prop, Tier string
	Seed       uint64
	Workers    int
	Only       int // >=0: run only this case (replay)
	Quiet      bool
}

type viol struct {
	Case int
	V    Violation
}

// RunDriver runs a whole check and returns the process exit code.
func RunDriver(a DriverArgs) int {
	p := Lookup(a.Prop)
	if p == nil {
		fmt.Fprintf(os.Stderr, "unknown property %s (have %v)\n", a.Prop, IDs())
		return 2
	}
	info := p.Info()
	t0 := time.Now()
	n := p.Cases(a.Tier)
	W := a.Workers
	if W <= 0 {
		W = runtime.NumCPU()
	}
	if info.MaxWorkers > 0 && W > info.MaxWorkers {
		W = info.MaxWorkers
	}
	if W > n {
		W = n
	}
	if W < 1 {
		W = 1
	}
	scratchRoot := os.Getenv("VERIF_SCRATCH")
	if scratchRoot == "" {
		scratchRoot = "/var/tmp"
	}
	scratch, err := os.MkdirTemp(scratchRoot, "verif-"+a.Prop+"-")
	if err != nil {
		fmt.Fprintln(os.Stderr, err)
		return 2
	}
	defer os.RemoveAll(scratch)

	exe, err := os.Executable()
	if err != nil {
		exe = filepath.Join(BinDir(), "vcheck")
	}
	if info.Race && !strings.HasSuffix(exe, ".race") {
		exe += ".race"
	}
	timeout := info.CaseTimeout
	if timeout <= 0 {
		timeout = 300
	}
	if info.MaxRSSMB == 0 && info.Race {
		info.MaxRSSMB = 8192
	}

	var mu sync.Mutex
	outcomes := map[int]caseOutcome{}
	var viols []viol
	var timeouts []int
	var inconcl []string

	runRange := func(w, start, step, end int, alone bool) {
		cur := start
		for attempt := 0; cur < end; attempt++ {
			journal := filepath.Join(scratch, fmt.Sprintf("j-%d-%d-%d", w, cur, attempt))
			errf := filepath.Join(scratch, fmt.Sprintf("err-%d-%d-%d", w, cur, attempt))
			ef, _ := os.Create(errf)
			cmd := exec.Command(exe, "worker",
				"--prop", a.Prop, "--tier", a.Tier, "--seed", strconv.FormatUint(a.Seed, 10),
				"--start", strconv.Itoa(cur), "--step", strconv.Itoa(step), "--end", strconv.Itoa(end),
				"--journal", journal, "--scratch", filepath.Join(scratch, fmt.Sprintf("w%d", w)),
				"--timeout", strconv.Itoa(timeout), "--maxrss", strconv.Itoa(info.MaxRSSMB))
			cmd.Stdout = ef
			cmd.Stderr = ef
			cmd.Env = append(os.Environ(),
				"GORACE=halt_on_error=0 log_path="+filepath.Join(scratch, fmt.Sprintf("race-%d", w)),
				"GOTRACEBACK=all")
			cmd.SysProcAttr = &syscall.SysProcAttr{Setpgid: true}
			runErr := cmd.Run()
			ef.Close()
			// parse journal
			done, open, timedOut := false, -1, false
			if jf, err := os.Open(journal); err == nil {
				sc := bufio.NewScanner(jf)
				sc.Buffer(make([]byte, 16<<20), 64<<20)
				for sc.Scan() {
					var r jrec
					if json.Unmarshal(sc.Bytes(), &r) != nil {
						continue
					}
					switch r.T {
					case "B":
						open = r.I
					case "E":
						open = -1
						mu.Lock()
						outcomes[r.I] = caseOutcome{I: r.I, R: *r.R, Sec: r.S}
						for _, v := range r.R.Violations {
							viols = append(viols, viol{r.I, v})
						}
						mu.Unlock()
					case "T":
						timedOut = true
					case "D":
						done = true
					}
				}
				jf.Close()
			}
			if done {
				return
			}
			if open < 0 {
				// died outside a case (start-up failure): report and stop this slice
				tail := tailFile(errf, 4000)
				mu.Lock()
				inconcl = append(inconcl, fmt.Sprintf("worker %d died outside a case (%v): %s", w, runErr, lastLines(tail, 3)))
				mu.Unlock()
				return
			}
			// attribute the death to case `open`
			tail := tailFile(errf, 200000)
			mu.Lock()
			if timedOut {
				if alone {
					v := Violation{Sig: "timeout|" + watchdogFrame(tail), Msg: fmt.Sprintf("case %d exceeded the %ds bound twice (second time alone); goroutine dump kept", open, timeout),
						Files: map[string]string{"stderr.txt": clip(tail, 60000)}}
					viols = append(viols, viol{open, v})
					outcomes[open] = caseOutcome{I: open, R: Result{Verdict: "violation", Violations: []Violation{v}}}
				} else {
					timeouts = append(timeouts, open)
				}
			} else {
				kind, val, stack := classifyDeath(tail, runErr)
				v := Violation{Sig: CrashSig(kind, val, stack), Msg: fmt.Sprintf("worker process died in case %d: %s: %s", open, kind, firstLine(val)),
					Files: map[string]string{"stderr.txt": clip(tail, 60000)}}
				// keep the inputs the case had saved
				cdir := filepath.Join(scratch, fmt.Sprintf("w%d", w), fmt.Sprintf("case-%d", open))
				_ = filepath.Walk(cdir, func(path string, fi os.FileInfo, err error) error {
					if err == nil && !fi.IsDir() && fi.Size() < 1<<20 {
						b, _ := os.ReadFile(path)
						rel, _ := filepath.Rel(cdir, path)
						v.Files["input/"+rel] = string(b)
					}
					return nil
				})
				viols = append(viols, viol{open, v})
				outcomes[open] = caseOutcome{I: open, R: Result{Verdict: "violation", Violations: []Violation{v}, NonTrivial: true, Hash: HashOf("death", strconv.Itoa(open))}}
			}
			mu.Unlock()
			cur = open + step
		}
	}

	if a.Only >= 0 {
		runRange(0, a.Only, 1, a.Only+1, false)
	} else {
		var wg sync.WaitGroup
		for w := 0; w < W; w++ {
			wg.Add(1)
			go func(w int) {
				defer wg.Done()
				runRange(w, w, W, n, false)
			}(w)
		}
		wg.Wait()
	}
	// bounded progress: re-run timed-out cases alone
	sort.Ints(timeouts)
	confirmed := 0
	for k, c := range timeouts {
		if confirmed >= 3 {
			// three cases already failed to end when run alone: the verdict is a violation; the
			// remaining ones are not re-run (each would cost the full time bound again)
			inconcl = append(inconcl, fmt.Sprintf("%d more cases exceeded %ds under load and were not re-run alone (3 already confirmed alone): %v", len(timeouts)-k, timeout, timeouts[k:]))
			break
		}
		before := len(viols)
		runRange(1000+k, c, 1, c+1, true)
		if len(viols) == before {
			inconcl = append(inconcl, fmt.Sprintf("case %d exceeded %ds under load but not alone: inconclusive(load)", c, timeout))
		} else {
			confirmed++
		}
	}
	// race reports
	races := collectRaces(scratch)
	for _, r := range races {
		viols = append(viols, viol{-1, r})
	}

	return finish(a, p, info, n, outcomes, viols, inconcl, time.Since(t0))
}

func tailFile(path string, n int) string {
	b, err := os.ReadFile(path)
	if err != nil {
		return ""
	}
	// for crashes the *head* of the trace matters (panic line + first goroutine)
	idx := -1
	for _, m := range []string{"panic: ", "fatal error: ", "WATCHDOG case"} {
		if i := strings.Index(string(b), m); i >= 0 && (idx < 0 || i < idx) {
			idx = i
		}
	}
	s := string(b)
	if idx >= 0 {
		s = s[idx:]
		if len(s) > n {
			s = s[:n]
		}
		return s
	}
	if len(s) > n {
		s = s[len(s)-n:]
	}
	return s
}

func clip(s string, n int) string {
	if len(s) > n {
		return s[:n] + "\n...[clipped]"
	}
	return s
}

func firstLine(s string) string {
	if i := strings.IndexByte(s, '\n'); i >= 0 {
		return s[:i]
	}
	return s
}

func lastLines(s string, n int) string {
	ls := strings.Split(strings.TrimSpace(s), "\n")
	if len(ls) > n {
		ls = ls[len(ls)-n:]
	}
	return strings.Join(ls, " / ")
}

func classifyDeath(tail string, runErr error) (kind, val, stack string) {
	if i := strings.Index(tail, "fatal error: "); i >= 0 && (strings.Index(tail, "panic: ") < 0 || i < strings.Index(tail, "panic: ")) {
		rest := tail[i+len("fatal error: "):]
		return "fatal", firstLine(rest), rest
	}
	if i := strings.Index(tail, "panic: "); i >= 0 {
		rest := tail[i+len("panic: "):]
		return "panic", firstLine(rest), rest
	}
	code := -1
	if ee, ok := runErr.(*exec.ExitError); ok {
		code = ee.ExitCode()
	}
	return "exit", fmt.Sprintf("status %d: %s", code, lastLines(tail, 1)), ""
}

func watchdogFrame(tail string) string {
	// first sysl frame of any goroutine in the dump
	return InnermostSyslFrame(tail)
}

var raceFrameRe = regexp.MustCompile(`(?m)^  (\S+)\(`)

func collectRaces(scratch string) []Violation {
	files, _ := filepath.Glob(filepath.Join(scratch, "race-*"))
	seen := map[string]bool{}
	var out []Violation
	for _, f := range files {
		b, err := os.ReadFile(f)
		if err != nil {
			continue
		}
		blocks := strings.Split(string(b), "WARNING: DATA RACE")
		for _, blk := range blocks[1:] {
			// signature: first sysl (or harness) frame of each of the two accesses
			parts := strings.SplitN(blk, "Previous ", 2)
			a := firstFrame(parts[0])
			bb := ""
			if len(parts) > 1 {
				bb = firstFrame(parts[1])
			}
			pair := []string{a, bb}
			sort.Strings(pair)
			sig := "race|" + pair[0] + "|" + pair[1]
			if seen[sig] {
				continue
			}
			seen[sig] = true
			out = append(out, Violation{Sig: sig, Msg: "data race reported by the Go race detector between " + pair[0] + " and " + pair[1],
				Files: map[string]string{"race.txt": clip("WARNING: DATA RACE"+blk, 20000)}})
		}
	}
	return out
}

func firstFrame(s string) string {
	first := ""
	for _, m := range raceFrameRe.FindAllStringSubmatch(s, -1) {
		fn := m[1]
		if first == "" {
			first = fn
		}
		if strings.HasPrefix(fn, "github.com/anz-bank/sysl/") {
			return strings.TrimPrefix(fn, "github.com/anz-bank/sysl/")
		}
	}
	return first
}

func finish(a DriverArgs, p Property, info Info, n int, outcomes map[int]caseOutcome, viols []viol, inconcl []string, wall time.Duration) int {
	findings := LoadFindings()
	// aggregate
	counts := map[string]int{}
	sets := map[string]map[string]bool{}
	distinct := map[string]bool{}
	var samples []any
	evals, skipped := 0, 0
	idx := make([]int, 0, len(outcomes))
	for i := range outcomes {
		idx = append(idx, i)
	}
	sort.Ints(idx)
	var slowest caseOutcome
	for _, i := range idx {
		o := outcomes[i]
		if o.R.Verdict == "skip" {
			skipped++
			continue
		}
		evals++
		if o.Sec > slowest.Sec {
			slowest = o
		}
		if o.R.Verdict == "inconclusive" {
			inconcl = append(inconcl, fmt.Sprintf("case %d: %s", i, o.R.Note))
		}
		if o.R.NonTrivial && o.R.Hash != "" {
			distinct[o.R.Hash] = true
		}
		for k, v := range o.R.Counts {
			counts[k] += v
		}
		for k, vs := range o.R.Sets {
			if sets[k] == nil {
				sets[k] = map[string]bool{}
			}
			for _, v := range vs {
				sets[k][v] = true
			}
		}
		if o.R.Sample != nil && len(samples) < 5 {
			samples = append(samples, o.R.Sample)
		}
	}
	missing := 0
	if a.Only < 0 {
		missing = n - len(outcomes)
		if missing > 0 {
			inconcl = append(inconcl, fmt.Sprintf("%d of %d cases produced no outcome", missing, n))
		}
	}
	// floors
	floorFail := []string{}
	if a.Only < 0 {
		for k, min := range info.SetFloors {
			if len(sets[k]) < min {
				floorFail = append(floorFail, fmt.Sprintf("observation set %q has %d members, floor %d", k, len(sets[k]), min))
			}
		}
		for k, min := range info.CountFloors {
			if counts[k] < min {
				floorFail = append(floorFail, fmt.Sprintf("observation counter %q is %d, floor %d", k, counts[k], min))
			}
		}
	}

	// violations -> known / new
	type vrec struct {
		Case   int    `json:"case"`
		Sig    string `json:"sig"`
		Msg    string `json:"msg"`
		Replay string `json:"replay,omitempty"`
		Known  bool   `json:"known"`
	}
	var vrecs []vrec
	knownHit := map[string]int{}
	knownWhat := map[string]string{}
	newSigs := map[string]string{} // sig -> replay path
	newCount := 0
	sort.SliceStable(viols, func(i, j int) bool { return viols[i].Case < viols[j].Case })
	for _, v := range viols {
		if f := matchFinding(findings, a.Prop, v.V.Sig); f != nil {
			key := f.Sig + f.SigPrefix
			knownHit[key]++
			knownWhat[key] = f.What
			if len(vrecs) < 200 {
				vrecs = append(vrecs, vrec{v.Case, v.V.Sig, clip(v.V.Msg, 300), "", true})
			}
			continue
		}
		newCount++
		path, seen := newSigs[v.V.Sig]
		if !seen && len(newSigs) < 25 {
			path = writeReplay(a, v)
			newSigs[v.V.Sig] = path
		}
		if len(vrecs) < 200 {
			vrecs = append(vrecs, vrec{v.Case, v.V.Sig, clip(v.V.Msg, 300), path, false})
		}
	}

	// evidence
	setSizes := map[string]int{}
	setVals := map[string][]string{}
	for k, m := range sets {
		setSizes[k] = len(m)
		vals := make([]string, 0, len(m))
		for v := range m {
			vals = append(vals, v)
		}
		sort.Strings(vals)
		if len(vals) > 60 {
			vals = vals[:60]
		}
		setVals[k] = vals
	}
	if len(samples) == 0 {
		samples = append(samples, map[string]any{"note": "no sample recorded"})
	}
	cov := map[string]any{
		"evaluations":         evals,
		"distinct_nontrivial": len(distinct),
		"rule":                info.Rule,
		"samples":             samples,
		"observed_counts":     counts,
		"observed_set_sizes":  setSizes,
		"observed_sets":       setVals,
		"skipped":             skipped,
		"inconclusive":        inconcl,
		"floor_failures":      floorFail,
		"cases_planned":       n,
		"slowest_case":        map[string]any{"case": slowest.I, "seconds": slowest.Sec},
		"violation_records":   vrecs,
		"known_findings_hit":  knownHit,
	}
	if info.Exhaustive {
		cov["exhaustive"] = true
	}
	ev := map[string]any{
		"property_id": a.Prop,
		"tier":        a.Tier,
		"seed":        int64(a.Seed),
		"level":       info.Level,
		"coverage":    cov,
		"assumptions": info.Assumptions,
		"wall_s":      wall.Seconds(),
		"violations":  newCount,
	}
	if a.Only < 0 {
		_ = os.MkdirAll(filepath.Join(VerifDir(), "evidence"), 0o755)
		b, _ := json.MarshalIndent(ev, "", " ")
		_ = os.WriteFile(filepath.Join(VerifDir(), "evidence", a.Prop+".json"), append(b, '\n'), 0o644)
	}

	// report
	keys := make([]string, 0, len(knownHit))
	for k := range knownHit {
		keys = append(keys, k)
	}
	sort.Strings(keys)
	for _, k := range keys {
		fmt.Printf("KNOWN-FINDING: property=%s %s (seen %d times this run)\n", a.Prop, knownWhat[k], knownHit[k])
	}
	for _, m := range inconcl {
		fmt.Printf("INCONCLUSIVE: property=%s %s\n", a.Prop, m)
	}
	sigs := make([]string, 0, len(newSigs))
	for s := range newSigs {
		sigs = append(sigs, s)
	}
	sort.Strings(sigs)
	for _, s := range sigs {
		fmt.Printf("VIOLATION property=%s replay=%s\n", a.Prop, newSigs[s])
		fmt.Printf("  sig: %s\n", s)
	}
	fmt.Printf("SUMMARY property=%s tier=%s seed=%d cases=%d evaluated=%d distinct_nontrivial=%d new_violations=%d known=%d inconclusive=%d wall=%.1fs\n",
		a.Prop, a.Tier, a.Seed, n, evals, len(distinct), newCount, len(viols)-newCount, len(inconcl), wall.Seconds())
	ck := make([]string, 0, len(counts))
	for k := range counts {
		ck = append(ck, k)
	}
	sort.Strings(ck)
	for _, k := range ck {
		fmt.Printf("  observed %s = %d\n", k, counts[k])
	}
	sk := make([]string, 0, len(setSizes))
	for k := range setSizes {
		sk = append(sk, k)
	}
	sort.Strings(sk)
	for _, k := range sk {
		fmt.Printf("  observed |%s| = %d\n", k, setSizes[k])
	}
	if newCount > 0 {
		return 1
	}
	if len(floorFail) > 0 || evals == 0 || (a.Only < 0 && len(distinct) < 2) {
		for _, m := range floorFail {
			fmt.Printf("INCONCLUSIVE: property=%s %s\n", a.Prop, m)
		}
		fmt.Printf("INCONCLUSIVE: the monitors observed too little to decide %s\n", a.Prop)
		if a.Only < 0 {
			return 3
		}
	}
	return 0
}

func writeReplay(a DriverArgs, v viol) string {
	dir := filepath.Join(VerifDir(), "replays", a.Prop, HashOf(v.V.Sig, strconv.Itoa(v.Case), strconv.FormatUint(a.Seed, 10), a.Tier))
	_ = os.MkdirAll(dir, 0o755)
	meta := map[string]any{"property": a.Prop, "seed": a.Seed, "tier": a.Tier, "case": v.Case, "sig": v.V.Sig, "msg": v.V.Msg}
	b, _ := json.MarshalIndent(meta, "", " ")
	_ = os.WriteFile(filepath.Join(dir, "case.json"), b, 0o644)
	for name, content := range v.V.Files {
		pth := filepath.Join(dir, name)
		_ = os.MkdirAll(filepath.Dir(pth), 0o755)
		_ = os.WriteFile(pth, []byte(content), 0o644)
	}
	return dir
}
