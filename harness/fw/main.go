package fw

import (
	"encoding/json"
	"flag"
	"fmt"
	"os"
	"path/filepath"
	"strconv"
)

func seedFromEnv() uint64 {
	if s := os.Getenv("VERIF_SEED"); s != "" {
		if v, err := strconv.ParseUint(s, 10, 64); err == nil {
			return v
		}
	}
	return 1
}

// Main implements the run / worker / replay / list sub-commands; returns the exit code,
// or -1 when the sub-command is not one of them.
func Main(args []string) int {
	if len(args) < 2 {
		fmt.Fprintln(os.Stderr, "usage: run <Cnn> [--tier t] [--case n] | worker ... | replay <dir> | list")
		return 2
	}
	switch args[1] {
	case "list":
		for _, id := range IDs() {
			fmt.Println(id)
		}
		return 0
	case "run":
		fs := flag.NewFlagSet("run", flag.ExitOnError)
		tier := fs.String("tier", "quick", "")
		seed := fs.Uint64("seed", seedFromEnv(), "")
		workers := fs.Int("workers", 0, "")
		only := fs.Int("case", -1, "")
		_ = fs.Parse(args[3:])
		return RunDriver(DriverArgs{Prop: args[2], Tier: *tier, Seed: *seed, Workers: *workers, Only: *only})
	case "replay":
		b, err := os.ReadFile(filepath.Join(args[2], "case.json"))
		if err != nil {
			fmt.Fprintln(os.Stderr, err)
			return 2
		}
		var m struct {
			Property string
			Seed     uint64
			Tier     string
			Case     int
		}
		if err := json.Unmarshal(b, &m); err != nil {
			fmt.Fprintln(os.Stderr, err)
			return 2
		}
		if m.Case < 0 {
			fmt.Println("this violation is not tied to one case (race report); re-run the whole check")
			return 2
		}
		return RunDriver(DriverArgs{Prop: m.Property, Tier: m.Tier, Seed: m.Seed, Only: m.Case})
	case "worker":
		fs := flag.NewFlagSet("worker", flag.ExitOnError)
		var a WorkerArgs
		fs.StringVar(&a.Prop, "prop", "", "")
		fs.StringVar(&a.Tier, "tier", "quick", "")
		fs.Uint64Var(&a.Seed, "seed", 1, "")
		fs.IntVar(&a.Start, "start", 0, "")
		fs.IntVar(&a.Step, "step", 1, "")
		fs.IntVar(&a.End, "end", 0, "")
		fs.StringVar(&a.Journal, "journal", "", "")
		fs.StringVar(&a.Scratch, "scratch", "", "")
		fs.IntVar(&a.Timeout, "timeout", 60, "")
		fs.IntVar(&a.KeepSamples, "keep", 2, "")
		fs.IntVar(&a.MaxRSSMB, "maxrss", 4096, "")
		_ = fs.Parse(args[2:])
		return RunWorker(a)
	}
	return -1
}
