// Package fw is the runtime-monitoring framework: a driver that supervises worker
// processes running the real sysl code on generated cases, journals what each case
// observed, attributes process deaths to the case that was running, matches violation
// signatures against the committed known-findings file and writes the evidence file.
package fw

import (
	"crypto/sha256"
	"encoding/hex"
	"fmt"
	"runtime/debug"
	"sort"
	"strings"
)

// Violation is one refutation of the property observed by a monitor.
type Violation struct {
	Sig   string            `json:"sig"`             // narrow signature, matched against known_findings.jsonl
	Msg   string            `json:"msg"`             // human-readable description
	Files map[string]string `json:"files,omitempty"` // replay artefacts (name -> content)
}

// Result is what a monitor reports for one case.
type Result struct {
	Verdict    string              `json:"verdict"` // ok | violation | inconclusive | skip
	NonTrivial bool                `json:"nontrivial"`
	Hash       string              `json:"hash,omitempty"` // identity of the case (for distinct counting)
	Violations []Violation         `json:"violations,omitempty"`
	Note       string              `json:"note,omitempty"` // reason for inconclusive/skip
	Sample     any                 `json:"sample,omitempty"`
	Counts     map[string]int      `json:"counts,omitempty"` // observation counters (summed over cases)
	Sets       map[string][]string `json:"sets,omitempty"`   // observation sets (unioned over cases)
}

func (r *Result) Count(k string, n int) {
	if r.Counts == nil {
		r.Counts = map[string]int{}
	}
	r.Counts[k] += n
}

func (r *Result) Add(set, v string) {
	if r.Sets == nil {
		r.Sets = map[string][]string{}
	}
	r.Sets[set] = append(r.Sets[set], v)
}

func (r *Result) Violate(sig, msg string, files map[string]string) {
	r.Verdict = "violation"
	r.Violations = append(r.Violations, Violation{Sig: sig, Msg: msg, Files: files})
}

// Ctx is handed to a property for each case.
type Ctx struct {
	Prop    string
	Seed    uint64
	Tier    string // quick | thorough
	Case    int
	Dir     string // scratch directory of this case (exists)
	BinDir  string // /verif/bin
	Repo    string // /repo
	Verif   string // /verif
	Replay  bool
	Workers int
}

func (c *Ctx) Rng() *Rand { return NewRand(c.Seed, uint64(c.Case)) }

// Thorough is a convenience.
func (c *Ctx) Thorough() bool { return c.Tier == "thorough" }

// Property is one of C01..C20.
type Property interface {
	ID() string
	// Cases returns the number of cases for a tier (fixed by tier, not by time).
	Cases(tier string) int
	// Run executes case i: generate the input (save it under ctx.Dir first when a
	// process death is possible), run the real code, let the oracle judge.
	Run(ctx *Ctx, i int) Result
	// Info describes the check for the evidence file.
	Info() Info
}

type Info struct {
	Level       string   // MANIFEST/EVIDENCE level: exploration | fault_enumeration | ...
	Rule        string   // how cases are generated and what makes one non-trivial
	Assumptions []string // trusted base
	Race        bool     // run the worker built with -race
	CaseTimeout int      // seconds per case before the watchdog fires (0 = default)
	MaxWorkers  int      // 0 = all cores
	MaxRSSMB    int      // per-worker resident-set bound in MiB (0 = 4096)
	// Floors: observation set/counter names that must reach a minimum, else the run is
	// inconclusive (monitors did not observe enough).
	SetFloors   map[string]int
	CountFloors map[string]int
	Exhaustive  bool
}

var registry = map[string]Property{}

func Register(p Property) { registry[p.ID()] = p }
func Lookup(id string) Property {
	return registry[id]
}
func IDs() []string {
	var ids []string
	for k := range registry {
		ids = append(ids, k)
	}
	sort.Strings(ids)
	return ids
}

// HashOf gives a short stable identity for anything printable.
func HashOf(parts ...string) string {
	h := sha256.New()
	for _, p := range parts {
		h.Write([]byte(p))
		h.Write([]byte{0})
	}
	return hex.EncodeToString(h.Sum(nil))[:16]
}

// PanicInfo is what Guard caught.
type PanicInfo struct {
	Value string
	Stack string
}

// Guard runs f and converts a Go panic into a PanicInfo (nil if none). Fatal errors
// (stack overflow, concurrent map writes), os.Exit and log.Fatal still kill the worker;
// those are attributed by the driver from the journal.
func Guard(f func()) (pi *PanicInfo) {
	defer func() {
		if r := recover(); r != nil {
			pi = &PanicInfo{Value: fmt.Sprint(r), Stack: string(debug.Stack())}
		}
	}()
	f()
	return nil
}

// CrashSig builds the narrow signature of a crash: innermost sysl frame + message class.
func CrashSig(kind, value, stack string) string {
	return kind + "|" + InnermostSyslFrame(stack) + "|" + MsgClass(value)
}

// InnermostSyslFrame returns the first function of github.com/anz-bank/sysl in a Go
// stack trace (skipping runtime and panic machinery), without arguments.
func InnermostSyslFrame(stack string) string {
	for _, line := range strings.Split(stack, "\n") {
		line = strings.TrimSpace(line)
		if !strings.HasPrefix(line, "github.com/anz-bank/sysl/") {
			continue
		}
		if i := strings.LastIndex(line, "("); i > 0 {
			line = line[:i]
		}
		line = strings.TrimPrefix(line, "github.com/anz-bank/sysl/")
		// closures: keep func name, drop .func1.2 suffix noise
		return line
	}
	return "?"
}

// MsgClass normalises a panic message: digits -> N, quoted text -> Q, truncated.
func MsgClass(v string) string {
	var b strings.Builder
	inq := false
	prevN := false
	for _, r := range v {
		if r == '"' {
			inq = !inq
			if !inq {
				b.WriteString("Q")
			}
			continue
		}
		if inq {
			continue
		}
		if r >= '0' && r <= '9' {
			if !prevN {
				b.WriteByte('N')
			}
			prevN = true
			continue
		}
		prevN = false
		if r == '\n' {
			break
		}
		b.WriteRune(r)
	}
	s := b.String()
	if len(s) > 80 {
		s = s[:80]
	}
	return s
}
