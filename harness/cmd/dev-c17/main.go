// dev-c17: development binary for property C17 (relational model is a lossless image of the model).
package main

import (
	"os"

	"verif/fw"
	_ "verif/props/c17"
)

func main() { os.Exit(fw.Main(os.Args)) }
