// dev-example: template for a per-property development binary (copy to cmd/dev-cNN and
// import your package instead of c02).
package main

import (
	"os"

	"verif/fw"
	_ "verif/props/c02"
)

func main() { os.Exit(fw.Main(os.Args)) }
