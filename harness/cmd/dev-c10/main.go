// dev-c10: development binary for property C10 (view evaluation semantics and purity).
package main

import (
	"os"

	"verif/fw"
	_ "verif/props/c10"
)

func main() { os.Exit(fw.Main(os.Args)) }
