// dev-c15: development binary for property C15 (data-model diagrams).
package main

import (
	"os"

	"verif/fw"
	_ "verif/props/c15"
)

func main() { os.Exit(fw.Main(os.Args)) }
