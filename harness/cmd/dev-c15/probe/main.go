// temporary probe: prints data model diagrams for a sysl file
package main

import (
	"fmt"
	"os"
	"sort"

	"github.com/anz-bank/sysl/pkg/cmdutils"
	"github.com/anz-bank/sysl/pkg/datamodeldiagram"
	"github.com/anz-bank/sysl/pkg/parse"
	"github.com/sirupsen/logrus"
	"github.com/spf13/afero"
	"io"
)

func main() {
	// usage: probe file.sysl output direct|<project>
	b, _ := os.ReadFile(os.Args[1])
	fs := afero.NewMemMapFs()
	_ = afero.WriteFile(fs, "m.sysl", b, 0o644)
	logrus.SetOutput(io.Discard)
	m, err := parse.NewParser().ParseFromFs("m.sysl", fs)
	if err != nil {
		fmt.Println("PARSE ERROR:", err)
		return
	}
	p := &cmdutils.CmdContextParamDatagen{Output: os.Args[2], ClassFormat: "%(classname)"}
	if os.Args[3] == "direct" {
		p.Direct = true
	} else {
		p.Project = os.Args[3]
	}
	lg := logrus.New()
	lg.SetOutput(io.Discard)
	defer func() {
		if r := recover(); r != nil {
			fmt.Println("PANIC:", r)
		}
	}()
	out, err := datamodeldiagram.GenerateDataModels(p, m, lg)
	if err != nil {
		fmt.Println("ERROR:", err)
		return
	}
	var ks []string
	for k := range out {
		ks = append(ks, k)
	}
	sort.Strings(ks)
	for _, k := range ks {
		fmt.Printf("=== %s\n%s", k, out[k])
	}
}
