// dev-c13: development binary for property C13 (sequence diagrams).
package main

import (
	"os"

	"verif/fw"
	_ "verif/props/c13"
)

func main() { os.Exit(fw.Main(os.Args)) }
