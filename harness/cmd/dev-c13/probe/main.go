// throw-away probe: prints the sequence diagram for a model file
package main

import (
	"fmt"
	"os"
	"strings"

	"github.com/anz-bank/sysl/pkg/cmdutils"
	"github.com/anz-bank/sysl/pkg/parse"
	"github.com/anz-bank/sysl/pkg/sequencediagram"
	"github.com/sirupsen/logrus"
	"github.com/spf13/afero"
)

func main() {
	b, _ := os.ReadFile(os.Args[1])
	fs := afero.NewMemMapFs()
	_ = afero.WriteFile(fs, "m.sysl", b, 0o644)
	m, err := parse.NewParser().ParseFromFs("m.sysl", fs)
	if err != nil {
		fmt.Println("PARSE ERROR", err)
		os.Exit(1)
	}
	logger := logrus.New()
	p := &cmdutils.CmdContextParamSeqgen{
		EndpointFormat: "%(epname)", AppFormat: "%(appname)", Output: "out.puml",
		EndpointsFlag: []string{os.Args[2]}, BlackboxesFlag: map[string]string{},
	}
	for _, a := range os.Args[3:] {
		if strings.HasPrefix(a, "g=") {
			p.Group = a[2:]
		} else if strings.HasPrefix(a, "b=") {
			p.BlackboxesFlag[a[2:]] = "black box"
		} else if strings.HasPrefix(a, "s=") {
			p.EndpointsFlag = append(p.EndpointsFlag, a[2:])
		}
	}
	out, err := sequencediagram.DoConstructSequenceDiagrams(p, m, logger)
	fmt.Println("ERR:", err)
	for k, v := range out {
		fmt.Println("==", k)
		fmt.Print(v)
	}
}
