// dev-c20: development binary for property C20 (same sub-commands as vcheck).
package main

import (
	"os"

	"verif/fw"
	_ "verif/props/c20"
)

func main() { os.Exit(fw.Main(os.Args)) }
