// dev-c18: development binary for property C18 (file access never escapes the project root).
package main

import (
	"os"

	"verif/fw"
	_ "verif/props/c18"
)

func main() { os.Exit(fw.Main(os.Args)) }
