// dev-c16: development binary for property C16 only.
package main

import (
	"os"

	"verif/fw"
	_ "verif/props/c16"
)

func main() { os.Exit(fw.Main(os.Args)) }
