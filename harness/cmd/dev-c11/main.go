// dev-c11: development binary for property C11 (importers). Besides the framework
// sub-commands (run / worker / replay / list) it has
//
//	import <path> [format]   import one foreign document and print the Sysl text (used by
//	                         the cross-process idempotence check)
//	probe <path> [format]    import, compile and dump the compiled model as JSON
//	gen <seed> <case> [tier] print the generated document of a case
package main

import (
	"os"

	"verif/fw"
	"verif/props/c11"
)

func main() {
	if len(os.Args) >= 3 && (os.Args[1] == "import" || os.Args[1] == "probe") {
		os.Exit(c11.CLI(os.Args[1:]))
	}
	if len(os.Args) >= 2 && os.Args[1] == "gen" {
		os.Exit(c11.GenCLI(os.Args[1:]))
	}
	os.Exit(fw.Main(os.Args))
}
