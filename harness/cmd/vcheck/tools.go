package main

import (
	"fmt"
	"os"
	"path/filepath"

	"github.com/anz-bank/sysl/pkg/parse"
	"github.com/spf13/afero"
	"google.golang.org/protobuf/encoding/prototext"

	"verif/fw"
	"verif/gen"
	"verif/oracle"
)

func init() {
	// vcheck dump [-sc] file.sysl : compile with the real parser and print the model
	extras["dump"] = func(args []string) {
		keepSC := false
		if len(args) > 0 && args[0] == "-sc" {
			keepSC = true
			args = args[1:]
		}
		abs, _ := filepath.Abs(args[0])
		fs := afero.NewBasePathFs(afero.NewOsFs(), filepath.Dir(abs))
		m, err := parse.NewParser().ParseFromFs(filepath.Base(abs), fs)
		if err != nil {
			fmt.Println("ERROR:", err)
			os.Exit(1)
		}
		if !keepSC {
			oracle.ClearSourceContexts(m)
		}
		fmt.Println(prototext.MarshalOptions{Multiline: true, Indent: " "}.Format(m))
	}
}

func init() {
	// vcheck gen <seed> <case> [thorough]: print the generated specification of a C02 case
	extras["gen"] = func(args []string) {
		var seed, c uint64
		fmt.Sscan(args[0], &seed)
		fmt.Sscan(args[1], &c)
		r := fw.NewRand(seed, c)
		spec := gen.Build(r.Fork(), gen.DefaultOpts(r, len(args) > 2))
		lay := gen.RandomLayout(r.Fork())
		rd := gen.Render(gen.JoinedPlan(spec, "root.sysl"), lay)
		fmt.Print(rd.Files["root.sysl"])
	}
}
