// vcheck: driver and worker of the runtime-monitoring harness (see /verif/DESIGN.md).
package main

import (
	"encoding/json"
	"flag"
	"fmt"
	"os"
	"path/filepath"
	"strconv"

	"verif/fw"
	_ "verif/props"
)

func seedFromEnv() uint64 {
	if s := os.Getenv("VERIF_SEED"); s != "" {
		if v, err := strconv.ParseUint(s, 10, 64); err == nil {
			return v
		}
	}
	return 1
}

func main() {
	if len(os.Args) < 2 {
		fmt.Fprintln(os.Stderr, "usage: vcheck run|worker|replay|list ...")
		os.Exit(2)
	}
	switch os.Args[1] {
	case "list":
		for _, id := range fw.IDs() {
			fmt.Println(id)
		}
	case "run":
		fs := flag.NewFlagSet("run", flag.ExitOnError)
		tier := fs.String("tier", "quick", "")
		seed := fs.Uint64("seed", seedFromEnv(), "")
		workers := fs.Int("workers", 0, "")
		only := fs.Int("case", -1, "")
		_ = fs.Parse(os.Args[3:])
		os.Exit(fw.RunDriver(fw.DriverArgs{Prop: os.Args[2], Tier: *tier, Seed: *seed, Workers: *workers, Only: *only}))
	case "replay":
		// vcheck replay <dir>: re-run exactly the case recorded in <dir>/case.json
		b, err := os.ReadFile(filepath.Join(os.Args[2], "case.json"))
		if err != nil {
			fmt.Fprintln(os.Stderr, err)
			os.Exit(2)
		}
		var m struct {
			Property string
			Seed     uint64
			Tier     string
			Case     int
		}
		if err := json.Unmarshal(b, &m); err != nil {
			fmt.Fprintln(os.Stderr, err)
			os.Exit(2)
		}
		if m.Case < 0 {
			fmt.Println("this violation is not tied to one case (race report); re-run the whole check")
			os.Exit(2)
		}
		os.Exit(fw.RunDriver(fw.DriverArgs{Prop: m.Property, Tier: m.Tier, Seed: m.Seed, Only: m.Case}))
	case "worker":
		fs := flag.NewFlagSet("worker", flag.ExitOnError)
		var a fw.WorkerArgs
		fs.StringVar(&a.Prop, "prop", "", "")
		fs.StringVar(&a.Tier, "tier", "quick", "")
		fs.Uint64Var(&a.Seed, "seed", 1, "")
		fs.IntVar(&a.Start, "start", 0, "")
		fs.IntVar(&a.Step, "step", 1, "")
		fs.IntVar(&a.End, "end", 0, "")
		fs.StringVar(&a.Journal, "journal", "", "")
		fs.StringVar(&a.Scratch, "scratch", "", "")
		fs.IntVar(&a.Timeout, "timeout", 60, "")
		fs.IntVar(&a.KeepSamples, "keep", 2, "")
		_ = fs.Parse(os.Args[2:])
		os.Exit(fw.RunWorker(a))
	default:
		extra(os.Args[1:])
	}
}
