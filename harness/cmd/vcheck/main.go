// vcheck: driver and worker of the runtime-monitoring harness (see /verif/DESIGN.md).
package main

import (
	"os"

	"verif/fw"
	_ "verif/props"
)

func main() {
	if rc := fw.Main(os.Args); rc >= 0 {
		os.Exit(rc)
	}
	extra(os.Args[1:])
}
