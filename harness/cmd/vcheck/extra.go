package main

import (
	"fmt"
	"os"
)

// extra dispatches developer sub-commands (dump, gen ...) registered by tools.go.
var extras = map[string]func([]string){}

func extra(args []string) {
	if f, ok := extras[args[0]]; ok {
		f(args[1:])
		return
	}
	fmt.Fprintf(os.Stderr, "unknown sub-command %q\n", args[0])
	os.Exit(2)
}
