// dev-c14: development binary for property C14 (integration diagrams).
package main

import (
	"os"

	"verif/fw"
	_ "verif/props/c14"
)

func main() { os.Exit(fw.Main(os.Args)) }
