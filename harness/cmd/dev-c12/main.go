// dev-c12: development binary for property C12 (OpenAPI export is valid and complete).
package main

import (
	"os"

	"verif/fw"
	_ "verif/props/c12"
)

func main() { os.Exit(fw.Main(os.Args)) }
