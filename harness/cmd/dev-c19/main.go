// dev-c19: development binary for property C19 (determinism of every generator).
// Besides the framework sub-commands (run / worker / replay / list) it offers
// `probe <case> [tier]`: run one case in this process and print timings and outcomes.
package main

import (
	"os"

	"verif/fw"
	"verif/props/c19"
)

func main() {
	if len(os.Args) >= 2 && os.Args[1] == "probe" {
		os.Exit(c19.Probe(os.Args[2:]))
	}
	os.Exit(fw.Main(os.Args))
}
