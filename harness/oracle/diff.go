package oracle

import (
	"fmt"
	"sort"

	"google.golang.org/protobuf/proto"
	"google.golang.org/protobuf/reflect/protoreflect"
)

// Diff lists the differences between two protobuf messages as human-readable paths.
// It is a generic reflective walk (no knowledge of sysl), so nothing in the message can
// hide from it. want = the independent statement of intent, got = what the code produced.
func Diff(want, got proto.Message, max int) []string {
	d := &differ{max: max}
	d.msg("", want.ProtoReflect(), got.ProtoReflect())
	return d.out
}

// PathClass strips map keys and list indices from a diff path: apps["A"].types["T"] -> apps[].types[]
func PathClass(p string) string {
	out := make([]byte, 0, len(p))
	depth := 0
	for i := 0; i < len(p); i++ {
		c := p[i]
		switch {
		case c == '[':
			depth++
			if depth == 1 {
				out = append(out, '[')
			}
		case c == ']':
			depth--
			if depth == 0 {
				out = append(out, ']')
			}
		case depth == 0:
			if c == ' ' || c == ':' {
				return string(out)
			}
			out = append(out, c)
		}
	}
	return string(out)
}

type differ struct {
	out []string
	max int
}

func (d *differ) add(format string, a ...any) {
	if len(d.out) < d.max {
		d.out = append(d.out, fmt.Sprintf(format, a...))
	}
}

func (d *differ) msg(path string, w, g protoreflect.Message) {
	if len(d.out) >= d.max {
		return
	}
	if !w.IsValid() && !g.IsValid() {
		return
	}
	fds := w.Descriptor().Fields()
	for i := 0; i < fds.Len(); i++ {
		fd := fds.Get(i)
		p := path + "." + string(fd.Name())
		if path == "" {
			p = string(fd.Name())
		}
		hw, hg := w.Has(fd), g.Has(fd)
		if !hw && !hg {
			continue
		}
		switch {
		case fd.IsMap():
			d.mapf(p, fd, w.Get(fd).Map(), g.Get(fd).Map())
		case fd.IsList():
			d.list(p, fd, w.Get(fd).List(), g.Get(fd).List())
		case fd.Kind() == protoreflect.MessageKind:
			if hw != hg {
				if hw {
					d.add("%s: missing (want %s)", p, short(w.Get(fd).Message().Interface()))
				} else {
					d.add("%s: unexpected (got %s)", p, short(g.Get(fd).Message().Interface()))
				}
				continue
			}
			d.msg(p, w.Get(fd).Message(), g.Get(fd).Message())
		default:
			if !w.Get(fd).Equal(g.Get(fd)) || hw != hg {
				d.add("%s: want %v got %v", p, scalar(fd, w.Get(fd), hw), scalar(fd, g.Get(fd), hg))
			}
		}
	}
}

func scalar(fd protoreflect.FieldDescriptor, v protoreflect.Value, has bool) string {
	if !has {
		return "<unset>"
	}
	if fd.Kind() == protoreflect.EnumKind {
		if ev := fd.Enum().Values().ByNumber(v.Enum()); ev != nil {
			return string(ev.Name())
		}
	}
	if fd.Kind() == protoreflect.StringKind {
		return fmt.Sprintf("%q", v.String())
	}
	return fmt.Sprint(v.Interface())
}

func short(m proto.Message) string {
	s := fmt.Sprint(m)
	if len(s) > 160 {
		s = s[:160] + "…"
	}
	return s
}

func (d *differ) val(p string, fd protoreflect.FieldDescriptor, w, g protoreflect.Value) {
	if fd.Kind() == protoreflect.MessageKind {
		d.msg(p, w.Message(), g.Message())
		return
	}
	if !w.Equal(g) {
		d.add("%s: want %v got %v", p, scalar(fd, w, true), scalar(fd, g, true))
	}
}

func (d *differ) list(p string, fd protoreflect.FieldDescriptor, w, g protoreflect.List) {
	if w.Len() != g.Len() {
		d.add("%s: want %d elements got %d", p, w.Len(), g.Len())
	}
	n := w.Len()
	if g.Len() < n {
		n = g.Len()
	}
	for i := 0; i < n; i++ {
		d.val(fmt.Sprintf("%s[%d]", p, i), fd, w.Get(i), g.Get(i))
	}
}

func (d *differ) mapf(p string, fd protoreflect.FieldDescriptor, w, g protoreflect.Map) {
	keys := map[string]protoreflect.MapKey{}
	w.Range(func(k protoreflect.MapKey, _ protoreflect.Value) bool { keys[k.String()] = k; return true })
	g.Range(func(k protoreflect.MapKey, _ protoreflect.Value) bool { keys[k.String()] = k; return true })
	names := make([]string, 0, len(keys))
	for k := range keys {
		names = append(names, k)
	}
	sort.Strings(names)
	for _, n := range names {
		k := keys[n]
		kp := fmt.Sprintf("%s[%q]", p, n)
		switch {
		case !g.Has(k):
			d.add("%s: missing", kp)
		case !w.Has(k):
			d.add("%s: unexpected", kp)
		default:
			d.val(kp, fd.MapValue(), w.Get(k), g.Get(k))
		}
	}
}
