// Package oracle holds the reference models and readers the monitors compare against.
package oracle

import (
	"google.golang.org/protobuf/proto"
	"google.golang.org/protobuf/reflect/protoreflect"
)

// ClearSourceContexts removes every source_context / source_contexts field, recursively,
// from any sysl protobuf message (generic reflection walk, independent of sysl code).
func ClearSourceContexts(m proto.Message) {
	clearSC(m.ProtoReflect())
}

func clearSC(m protoreflect.Message) {
	fds := m.Descriptor().Fields()
	for i := 0; i < fds.Len(); i++ {
		fd := fds.Get(i)
		name := string(fd.Name())
		if name == "source_context" || name == "source_contexts" {
			m.Clear(fd)
			continue
		}
		if !m.Has(fd) {
			continue
		}
		switch {
		case fd.IsMap():
			if fd.MapValue().Kind() == protoreflect.MessageKind {
				m.Get(fd).Map().Range(func(_ protoreflect.MapKey, v protoreflect.Value) bool {
					clearSC(v.Message())
					return true
				})
			}
		case fd.IsList():
			if fd.Kind() == protoreflect.MessageKind {
				l := m.Get(fd).List()
				for j := 0; j < l.Len(); j++ {
					clearSC(l.Get(j).Message())
				}
			}
		case fd.Kind() == protoreflect.MessageKind:
			clearSC(m.Get(fd).Message())
		}
	}
}
