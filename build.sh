#!/usr/bin/env bash
# Builds bin/vcheck (tag verif), bin/vcheck.race (only for properties that need it) and
# bin/sysl from /repo's current working tree. Serialised with a lock; Go's build cache
# makes the unchanged case cheap.
set -u
cd "$(dirname "$0")"
VERIF=$(pwd)
REPO=${VERIF_REPO:-/repo}
export GOFLAGS=-mod=mod GOPROXY=off GOSUMDB=off GOTOOLCHAIN=local CGO_ENABLED=1
mkdir -p "$VERIF/bin"
prop=${1:-all}
exec 9>"$VERIF/bin/.buildlock"
flock 9
cp -f "$REPO/go.sum" "$VERIF/harness/go.sum"
# the replace directive must point at the repository under test
if ! grep -q "=> $REPO\$" "$VERIF/harness/go.mod"; then
  sed -i "s#^replace github.com/anz-bank/sysl => .*#replace github.com/anz-bank/sysl => $REPO#" "$VERIF/harness/go.mod"
fi
( cd "$VERIF/harness" && go build -tags verif -o "$VERIF/bin/vcheck" ./cmd/vcheck ) || exit 1
case "$prop" in
  C05|C06|C07|C19|all)
    ( cd "$VERIF/harness" && go build -race -tags verif -o "$VERIF/bin/vcheck.race" ./cmd/vcheck ) || exit 1;;
esac
case "$prop" in
  C01|C09|C18|C19|C20|all)
    ( cd "$REPO" && go build -tags verif -o "$VERIF/bin/sysl" ./cmd/sysl ) || exit 1;;
esac
exit 0
