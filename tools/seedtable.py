#!/usr/bin/env python3
"""Prints the markdown table of /verif/seeded/*/meta.json for DESIGN.md §8.9."""
import json, glob
print("| seed | property | needs to manifest | demo confirmed | baseline green | detected | signatures |")
print("|------|----------|-------------------|----------------|----------------|----------|------------|")
for f in sorted(glob.glob("/verif/seeded/*/meta.json")):
    m = json.load(open(f))
    c = m["confirmed_by_me"]; r = m["check_run"]
    sigs = "; ".join("`%s`" % s.replace("|", "\\|") for s in r["violation_signatures"][:3])
    print("| %s | %s | %s | %s | %s | %s | %s |" % (m["name"], m["property"], m["needs_to_manifest"][:140],
          "yes" if ("SEED-DEMO-CONFIRMED" in c["demo"] or "confirmed" in c["demo"]) else "NO", "yes" if "0 not passed" in c["baseline_on_patched_tree"] else ("yes (1 starved test passes alone)" if "passes when re-run alone" in c["baseline_on_patched_tree"] else "?"),
          ("yes" if r["detected"] else "**no**") + (" (%s)" % m.get("note","") if m.get("note") else ""), sigs))
