#!/usr/bin/env bash
# tools/seedprocess.sh <Cnn> <seed-name> <worktree> <demo test rel path> <run regex> <pkg> [needs]
# 1. confirms the demo fails with / passes without the change (seedverify.sh) 2. checks the 1458 baseline tests on the
# patched worktree 3. stores patch/demo/README under /verif/seeded/<name>/ 4. runs the property's quick check against the
# patch on a scratch copy (muttest.sh) 5. writes meta.json with everything that was run and observed.
set -u
PROP=$1; NAME=$2; WT=$3; DEMO=$4; RUN=$5; PKG=$6; NEEDS=${7:-see README.txt}
cd /verif
D=/verif/seeded/$NAME; mkdir -p "$D"
cp "$WT/SEED/patch.diff" "$D/patch.diff"; cp "$WT/$DEMO" "$D/demo_test.go"; cp "$WT/SEED/README.txt" "$D/README.txt" 2>/dev/null
V=$(tools/seedverify.sh "$WT" "$DEMO" "$RUN" "$PKG" 2>&1 | tail -2 | tr '\n' ' ')
B=$(python3 tools/baseline.py "$WT" 2>&1 | grep '^baseline:' )
( cd /repo && git apply --check "$D/patch.diff" ) && AP=yes || AP=no
OUT=$(MUT_TAIL=40 tools/muttest.sh "$D/patch.diff" "$PROP" quick 2>&1); RC=$?
SIGS=$(echo "$OUT" | grep '^  sig:' | sed 's/^  sig: //' | sort -u | head -12 | python3 -c 'import sys,json; print(json.dumps([l.strip() for l in sys.stdin]))')
SUM=$(echo "$OUT" | grep '^SUMMARY' | tail -1)
python3 - "$PROP" "$NAME" "$NEEDS" "$V" "$B" "$AP" "$RC" "$SIGS" "$SUM" "$RUN" "$PKG" <<'P'
import sys,json
prop,name,needs,v,b,ap,rc,sigs,summ,run,pkg=sys.argv[1:]
meta={"property":prop,"name":name,"breaks":prop,"needs_to_manifest":needs,
 "origin":"independent sub-agent given only the property text and its own git worktree of /repo (nothing from /verif)",
 "confirmed_by_me":{"demo":"go test -vet=off -count=1 -run %s %s in the seed worktree, with and without the source change: %s"%(run,pkg,v),
   "baseline_on_patched_tree":b,"patch_applies_to_repo_head":ap},
 "check_run":{"command":"tools/muttest.sh seeded/%s/patch.diff %s quick (scratch copy of /repo + patch, harness and sysl rebuilt there)"%(name,prop),
   "exit_code":int(rc),"detected":int(rc)==1,"violation_signatures":json.loads(sigs),"summary":summ}}
json.dump(meta,open('/verif/seeded/%s/meta.json'%name,'w'),indent=1)
print(json.dumps(meta["check_run"],indent=1)[:900]); print(v); print(b)
P
