#!/usr/bin/env bash
# tools/sweep.sh [seed] [tier] : run every registered check once and summarise (exit codes, new violations)
cd "$(dirname "$0")/.."
SEED=${1:-1}; TIER=${2:-quick}
./build.sh all >/dev/null 2>&1 || { echo "BUILD FAILED"; exit 3; }
for n in $(seq -w 1 20); do
  p=C$n
  out=$(VERIF_SEED=$SEED ./bin/vcheck run $p --tier $TIER 2>&1); rc=$?
  echo "$p rc=$rc $(echo "$out" | grep '^SUMMARY' | sed 's/SUMMARY property=C[0-9]* //')"
  echo "$out" | grep -E '^(VIOLATION|  sig:|INCONCLUSIVE)' | head -6
done
