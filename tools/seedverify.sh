#!/usr/bin/env bash
# tools/seedverify.sh <worktree> <demo test file (relative)> <go test -run regex> <package of the demo> [extra go test flags]
# Confirms in the seed's own worktree: the demo FAILS with the change and PASSES without it, and the change builds.
# (No `git stash`: the stash is shared by all worktrees of a repository.)
set -u
WT=$1; DEMO=$2; RUN=$3; PKG=$4; shift 4
export GOFLAGS=-mod=mod GOPROXY=off GOSUMDB=off GOTOOLCHAIN=local CGO_ENABLED=1
cd "$WT" || exit 2
git diff --quiet && { echo "worktree has no source change"; exit 2; }
P=$(mktemp "$WT/.seedverify.XXXXXX.diff"); git diff > "$P"
go build ./... || { echo "BUILD FAILS with the change"; rm -f "$P"; exit 1; }
go test -vet=off -count=1 "$@" -run "$RUN" "$PKG" > /var/tmp/seedverify.with.$$.log 2>&1; with=$?
git apply -R "$P" || { echo "cannot revert"; exit 2; }
go test -vet=off -count=1 "$@" -run "$RUN" "$PKG" > /var/tmp/seedverify.without.$$.log 2>&1; without=$?
git apply "$P" || { echo "cannot re-apply"; exit 2; }
rm -f "$P"
echo "demo with change: exit $with (want != 0); without change: exit $without (want 0)"
[ $with -ne 0 ] && [ $without -eq 0 ] && echo "SEED-DEMO-CONFIRMED" || { echo "SEED-DEMO-NOT-CONFIRMED"; tail -5 /var/tmp/seedverify.with.$$.log /var/tmp/seedverify.without.$$.log; }
rm -f /var/tmp/seedverify.with.$$.log /var/tmp/seedverify.without.$$.log
