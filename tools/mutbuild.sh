#!/usr/bin/env bash
# tools/mutbuild.sh <scratch-copy-of-repo> <output-binary> [go package, default ./cmd/vcheck] [-race]
# Builds the harness against a scratch copy of the repository (for mutation validation)
# without touching /repo or harness/go.mod.
set -eu
SCR=$(cd "$1" && pwd); OUT=$2; PKG=${3:-./cmd/vcheck}; RACE=${4:-}
cd "$(dirname "$0")/../harness"
export GOFLAGS=-mod=mod GOPROXY=off GOSUMDB=off GOTOOLCHAIN=local CGO_ENABLED=1
MF=$(mktemp /var/tmp/mutmod.XXXXXX.mod)
sed "s#^replace github.com/anz-bank/sysl => .*#replace github.com/anz-bank/sysl => $SCR#" go.mod > "$MF"
cp "$SCR/go.sum" "${MF%.mod}.sum"
go build $RACE -tags verif -modfile="$MF" -o "$OUT" "$PKG"
rm -f "$MF" "${MF%.mod}.sum"
