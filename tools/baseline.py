#!/usr/bin/env python3
"""Runs the repository's pinned baseline (guard OFF) and checks that every test listed as
stable_pass in /root/.vp/BASELINE.json passes. Exit 0 iff all of them pass."""
import json, os, subprocess, sys
env = dict(os.environ, GOFLAGS="-mod=mod", GOPROXY="off", GOSUMDB="off", GOTOOLCHAIN="local")
repo = sys.argv[1] if len(sys.argv) > 1 else "/repo"
p = subprocess.run(f"cd {repo} && go test -json -vet=off -count=1 -timeout 25m ./...", shell=True, env=env,
                   stdout=subprocess.PIPE, stderr=subprocess.STDOUT, text=True)
status = {}
for line in p.stdout.splitlines():
    try:
        e = json.loads(line)
    except Exception:
        continue
    if e.get("Test") and e.get("Action") in ("pass", "fail", "skip"):
        status[e["Package"] + "::" + e["Test"]] = e["Action"]
base = json.load(open("/root/.vp/BASELINE.json"))
want = base["stable_pass"]
bad = [t for t in want if status.get(t) != "pass"]
print(f"baseline: {len(want)} stable tests, {len(want)-len(bad)} passed, {len(bad)} not passed; "
      f"{sum(1 for v in status.values() if v=='fail')} failing tests overall (18 need the network)")
for t in bad[:40]:
    print("NOT-PASSED", t, status.get(t))
sys.exit(1 if bad else 0)
