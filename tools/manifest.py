#!/usr/bin/env python3
"""Regenerates /verif/MANIFEST.json from the table below and validates it against the schema."""
import json, subprocess, sys
V = "/verif"
hook_commits = subprocess.run("git -C /repo log --format=%H --grep='^verif-hooks:' ", shell=True, capture_output=True, text=True).stdout.split()

# id -> (level category, technique, level text, level note, design ref)
CHECKS = {
 "C02": ("exploration", "runtime monitoring: generated specs compiled by the real parser, module compared field-by-field with an independently built expected model (reference-model monitor)",
         "Held on every generated specification explored (counts in evidence): the compiled module equals the intended module for thousands of random descriptions covering every construct the generator knows; no claim beyond the generated subset and bounds.",
         "Trusts the expected-model builder (gen/expect.go, written from lang-spec.md and calibrated on the generated subset) and the generic protobuf differ; constructs the generator does not produce (views, facades, inplace tuples) are not covered.", "DESIGN.md §3 C02"),
}
NOT_YET = {}
try:
    NOT_YET = json.load(open(V + "/tools/not_applicable.json"))
except Exception:
    pass
extra = {}
try:
    extra = json.load(open(V + "/tools/checks.json"))
except Exception:
    pass
for k, v in extra.items():
    CHECKS[k] = tuple(v)

checks = []
for pid in sorted(CHECKS):
    cat, tech, text, note, ref = CHECKS[pid]
    checks.append({
        "property_id": pid,
        "quick_cmd": f"./check {pid} --tier quick",
        "thorough_cmd": f"./check {pid} --tier thorough",
        "evidence_file": f"/verif/evidence/{pid}.json",
        "replay_cmd_template": f"./check {pid} --replay {{path}}",
        "engine": "vcheck",
        "level_claimed": {"category": cat, "text": text, "design_ref": ref},
        "level_note": note,
        "technique": tech,
    })
m = {
    "version": 1,
    "setup_cmd": "./build.sh all",
    "hooks": {
        "guard": "verif",
        "enable": "go build -tags verif (./build.sh builds the harness and cmd/sysl from /repo's working tree with the tag on)",
        "baseline_off_cmd": "cd /repo && GOFLAGS=-mod=mod GOPROXY=off GOSUMDB=off GOTOOLCHAIN=local go test -json -vet=off -count=1 -timeout 25m ./...",
        "source_commits": hook_commits,
        "add_only": True,
    },
    "engines": [{"name": "vcheck", "path": "/verif/harness", "serves_properties": sorted(CHECKS),
                 "kind_free_text": "Go driver/worker harness: runs /repo's real code on generated, hostile and stress workloads in supervised worker processes; monitors (reference models, event-log checkers, race detector) judge each execution"}],
    "checks": checks,
    "not_applicable": [{"property_id": k, "reason": v} for k, v in sorted(NOT_YET.items()) if k not in CHECKS],
    "notes": "All checks are runtime monitors (see DESIGN.md). ./check <id> rebuilds from /repo's working tree on every call.",
}
json.dump(m, open(V + "/MANIFEST.json", "w"), indent=1)
schema = json.load(open("/root/.vp/MANIFEST.schema.json"))
try:
    import jsonschema
    jsonschema.validate(m, schema)
    print("MANIFEST.json valid;", len(checks), "checks")
except ImportError:
    print("jsonschema not importable here; wrote MANIFEST.json unvalidated")
