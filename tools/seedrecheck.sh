#!/usr/bin/env bash
# tools/seedrecheck.sh <seed-name> <Cnn> [tier]: re-run the property's check against a stored seed and update meta.json
set -u
NAME=$1; PROP=$2; TIER=${3:-quick}
cd /verif
OUT=$(MUT_TAIL=60 tools/muttest.sh seeded/$NAME/patch.diff $PROP $TIER 2>&1); RC=$?
SIGS=$(echo "$OUT" | grep '^  sig:' | sed 's/^  sig: //' | sort -u | head -12 | python3 -c 'import sys,json; print(json.dumps([l.strip() for l in sys.stdin]))')
SUM=$(echo "$OUT" | grep '^SUMMARY' | tail -1)
python3 - "$NAME" "$PROP" "$TIER" "$RC" "$SIGS" "$SUM" <<'P'
import sys,json
name,prop,tier,rc,sigs,summ=sys.argv[1:]
p='/verif/seeded/%s/meta.json'%name
m=json.load(open(p))
m["check_run"]={"command":"tools/muttest.sh seeded/%s/patch.diff %s %s (scratch copy of /repo + patch, harness and sysl rebuilt there)"%(name,prop,tier),
 "exit_code":int(rc),"detected":int(rc)==1,"violation_signatures":json.loads(sigs),"summary":summ}
json.dump(m,open(p,'w'),indent=1)
print(name, "detected" if int(rc)==1 else "NOT detected (rc=%s)"%rc, sigs[:300])
P
