#!/usr/bin/env bash
# tools/muttest.sh <patch.diff> <Cnn> [tier] : apply a patch to a scratch copy of /repo,
# build the harness (and sysl) against it and run one check there. Nothing in /repo or
# /verif/evidence is touched. Prints the check's output; exit code is the check's.
set -u
# env MUT_REPO=<dir>: copy that tree instead of /repo (e.g. a seed worktree at its base commit); patch "none" = apply nothing.
if [ "$1" = none ]; then PATCH=none; else PATCH=$(realpath "$1"); fi; PROP=$2; TIER=${3:-quick}
S=$(mktemp -d /var/tmp/mut.XXXXXX)
trap 'rm -rf "$S"' EXIT
export GOFLAGS=-mod=mod GOPROXY=off GOSUMDB=off GOTOOLCHAIN=local CGO_ENABLED=1
rsync -a --exclude .git --exclude SEED "${MUT_REPO:-/repo}/" "$S/repo/"
if [ "$PATCH" != none ]; then ( cd "$S/repo" && patch -s -p1 < "$PATCH" ) || { echo "patch failed"; exit 9; }; fi
mkdir -p "$S/verif/bin"; cp /verif/known_findings.jsonl "$S/verif/" 2>/dev/null
/verif/tools/mutbuild.sh "$S/repo" "$S/verif/bin/vcheck" ./cmd/vcheck || { echo "mutant does not build"; exit 8; }
case "$PROP" in C05|C06|C07|C19) /verif/tools/mutbuild.sh "$S/repo" "$S/verif/bin/vcheck.race" ./cmd/vcheck -race || exit 8;; esac
case "$PROP" in C01|C09|C18|C19|C20) ( cd "$S/repo" && go build -tags verif -o "$S/verif/bin/sysl" ./cmd/sysl ) || exit 8;; esac
VERIF_DIR="$S/verif" VERIF_REPO="$S/repo" "$S/verif/bin/vcheck" run "$PROP" --tier "$TIER" 2>&1 | grep -v "^  observed" | tail -${MUT_TAIL:-15}
exit ${PIPESTATUS[0]}
